"""npvc executor: path-based symbolic execution of the real metric_learn AST into z3 terms.

See DESIGN.md 1.2 for the semantics assumed.  Anything outside the supported subset raises Unsupported,
which makes the function under analysis UNDECIDED (never verified, never a violation).
"""
import ast
import z3

from .values import *
from . import source as S


class Unsupported(Exception):
  pass


class Path:
  def __init__(self):
    self.frames = [{}]
    self.pc = []
    self.store = {}          # loc -> ArrState
    self.heap = {}           # oid -> {attr: V}
    self.events = []         # ghost events: ('warn', cat) / ('call', name, ...) / ('write', ...)
    self.notes = []          # things abstracted on this path (reported)
    self.side = []           # side obligations emitted along the path: (kind, name, pc snapshot, goal, info)
    self.outcome = None
    self.trace = []          # branch decisions (for reporting)
    self.lists = {}          # lid -> python list of V  (mutable python lists / sets)

  @property
  def env(self):
    return self.frames[-1]

  def fork(self):
    q = Path()
    q.frames = [dict(f) if not f.get('__shared__') else f for f in self.frames]
    # closures: a frame captured by a nested function is shared by reference within a path; on fork
    # we copy frames and re-point closures lazily (closure lookup goes through frame index)
    q.pc = list(self.pc)
    q.store = dict(self.store)
    q.heap = {k: dict(v) for k, v in self.heap.items()}
    q.events = list(self.events)
    q.notes = list(self.notes)
    q.side = list(self.side)
    q.trace = list(self.trace)
    q.lists = {k: dict(v) for k, v in self.lists.items()}
    return q

  def assume(self, c):
    if isinstance(c, bool):
      c = z3.BoolVal(c)
    self.pc.append(c)

  def new_loc(self, st):
    loc = fresh_name('a')
    self.store[loc] = st
    return VArr(loc)

  def arr(self, v):
    return self.store[v.loc]

  def new_obj(self, cls, attrs=None):
    oid = fresh_name('o')
    self.heap[oid] = dict(attrs or {})
    return VObj(oid, cls)


def feasible(pc, timeout=1500):
  s = z3.Solver()
  s.set(timeout=timeout)
  s.add(*pc)
  s.add(*distinct_axioms())
  return s.check() != z3.unsat


def to_real(t):
  return z3.ToReal(t) if t.sort() == z3.IntSort() else t


BUILTIN_EXC = {'ValueError', 'TypeError', 'IndexError', 'KeyError', 'AttributeError', 'RuntimeError',
               'AssertionError', 'Exception', 'ImportError', 'ZeroDivisionError', 'NotImplementedError'}


class Executor:
  def __init__(self, program, libspec=None, contracts=None, config=None):
    self.prog = program
    self.lib = libspec
    self.contracts = contracts or {}
    self.cfg = dict(inline_depth=6, modular=True, skip_verbose=True)
    self.cfg.update(config or {})
    self.collect = []
    self.depth = 0
    self.callstack = []
    self.dropped = []        # what the front end dropped (docstrings, verbose blocks): reported
    self.used_contracts = set()
    self.sidecars_used = set()       # (target, ordinal) of the sidecar loop invariants that bound to a loop of the current tree
    self.inlined = set()
    self.externals_used = set()
    self.loop_hook = None    # set by the contract machinery
    self._modconst_cache = {}

  # ------------------------------------------------------------------------------------------ helpers
  def finish(self, p, outcome):
    p.outcome = outcome
    self.collect.append(p)

  def raise_(self, p, cls, where='', args=()):
    self.finish(p, ('raise', VExc(cls, args), where))

  def truth(self, v, p):
    """python truthiness of v as a z3 Bool"""
    if isinstance(v, VBool):
      return v.t
    if isinstance(v, VInt):
      return v.t != 0
    if isinstance(v, VReal):
      return v.t != 0
    if isinstance(v, VNone):
      return z3.BoolVal(False)
    if isinstance(v, VStr):
      return z3.BoolVal(len(v.s) > 0)
    if isinstance(v, (VTuple, VList)):
      return z3.BoolVal(len(v.items) > 0)
    if isinstance(v, VListRef):
      return p.lists[v.lid]['n'] > 0
    if isinstance(v, VDict):
      return z3.BoolVal(len(v.d) > 0)
    if isinstance(v, VRef):
      # unknown object: truthiness is an uninterpreted predicate
      return z3.Function('truthy', Ref, z3.BoolSort())(v.t)
    if isinstance(v, (VObj, VFunc, VExt, VClass)):
      return z3.BoolVal(True)
    if type(v).__name__ == 'VExtObj':
      return fresh('truthy', z3.BoolSort())
    if isinstance(v, VArr) and self.lib:
      return self.lib.arr_truth(self, v, p)
    raise Unsupported('truthiness of %r' % (v,))

  def as_ref(self, v):
    if isinstance(v, VRef):
      return v.t
    if isinstance(v, VStr):
      return v.ref
    if isinstance(v, VNone):
      return NONE_REF
    return None

  def num(self, v):
    if isinstance(v, (VInt, VReal)):
      return v.t
    if isinstance(v, VBool):
      return z3.If(v.t, z3.IntVal(1), z3.IntVal(0))
    return None

  def wrapnum(self, t):
    return VInt(t) if t.sort() == z3.IntSort() else VReal(t)

  # ------------------------------------------------------------------------------------- name lookup
  def lookup(self, name, p, module):
    for fr in (p.frames[-1],):
      if name in fr:
        return fr[name]
    clo = p.frames[-1].get('__closure__')
    while clo is not None:
      if name in clo:
        return clo[name]
      clo = clo.get('__closure__')
    return self.global_(name, module)

  def global_(self, name, module):
    m = self.prog.modules[module]
    if name in m.funcs and '.' not in name:
      return VFunc(m.funcs[name], module)
    if name in m.classes:
      return VClass(name)
    if name in m.imports:
      imp = m.imports[name]
      if imp[0] == 'ext':
        # what the name is ACTUALLY bound to in the imported working-tree module decides (try/except ImportError
        # variants of the same import); the static import text is the fallback
        try:
          mod = S.import_repo_module(module, self.prog.repo)
          if hasattr(mod, name):
            obj = getattr(mod, name)
            if callable(obj) or isinstance(obj, type(ast)):
              dotted = imp[1]
              try:
                if S.resolve_external(imp[1]) is not obj:
                  dotted = '%s.%s' % (getattr(obj, '__module__', '?'), getattr(obj, '__qualname__', name))
              except Exception:
                dotted = '%s.%s' % (getattr(obj, '__module__', '?'), getattr(obj, '__qualname__', name))
              return VExt(obj, dotted)
        except Exception:
          pass
        try:
          return VExt(S.resolve_external(imp[1]), imp[1])
        except Exception:
          # optional dependency that is absent (e.g. skggm): the name is unbound at run time too
          return VOpaque('unresolved import ' + imp[1])
      _, mod, nm = imp
      mod = mod or ''
      mod = mod.split('.')[-1]
      if mod in self.prog.modules:
        mm = self.prog.modules[mod]
        if nm in mm.funcs:
          return VFunc(mm.funcs[nm], mod)
        if nm in mm.classes:
          return VClass(nm)
        return self.module_const(mod, nm)
      raise Unsupported('internal import %s.%s' % (mod, nm))
    bi = {'None': VNone(), 'True': VBool(True), 'False': VBool(False)}
    if name in bi:
      return bi[name]
    if name in BUILTIN_EXC:
      return VClass(name)
    import builtins
    if hasattr(builtins, name):
      return VExt(getattr(builtins, name), 'builtins.' + name)
    # module-level constant (EPS, HAS_SKGGM, ...): read from the imported working tree (assumption:
    # module constants are not rebound after import)
    return self.module_const(module, name)

  def module_const(self, module, name):
    key = (module, name)
    if key not in self._modconst_cache:
      mod = S.import_repo_module(module, self.prog.repo)
      if not hasattr(mod, name):
        raise Unsupported('unbound name %s in %s' % (name, module))
      self._modconst_cache[key] = getattr(mod, name)
    return self.lift(self._modconst_cache[key], '%s.%s' % (module, name))

  def lift(self, pyval, what=''):
    """python constant -> symbolic value"""
    import numpy as np
    if pyval is None:
      return VNone()
    if isinstance(pyval, bool):
      return VBool(pyval)
    if isinstance(pyval, int):
      return VInt(pyval)
    if isinstance(pyval, float):
      if pyval == float('inf'):
        return VInf(1)
      if pyval == float('-inf'):
        return VInf(-1)
      return VReal(pyval)
    if isinstance(pyval, str):
      return VStr(pyval)
    if isinstance(pyval, (list, tuple)):
      items = [self.lift(x) for x in pyval]
      return VTuple(items) if isinstance(pyval, tuple) else VList(items)
    if isinstance(pyval, (np.floating,)):
      return self.lift(float(pyval))
    if isinstance(pyval, (np.integer,)):
      return VInt(int(pyval))
    if callable(pyval) or isinstance(pyval, type(np)):
      return VExt(pyval, what)
    return VOpaque(what)

  # ------------------------------------------------------------------------------------ expressions
  def ev(self, e, p, module):
    """-> list of (path, value); evaluation may fork"""
    m = getattr(self, 'ev_' + type(e).__name__, None)
    if m is None:
      raise Unsupported('expression %s at line %s' % (type(e).__name__, getattr(e, 'lineno', '?')))
    return m(e, p, module)

  def ev_list(self, es, p, module):
    """evaluate a list of expressions left to right -> list of (path, [values])"""
    acc = [(p, [])]
    for e in es:
      nxt = []
      for q, vs in acc:
        for q2, v in self.ev(e, q, module):
          nxt.append((q2, vs + [v]))
      acc = nxt
    return acc

  def ev_Constant(self, e, p, module):
    v = e.value
    if v is Ellipsis:
      return [(p, VOpaque('...'))]
    return [(p, self.lift(v))]

  def ev_Name(self, e, p, module):
    try:
      return [(p, self.lookup(e.id, p, module))]
    except Unsupported as ex_:
      if 'unbound name' in str(ex_):
        # a local that no statement on this path has assigned (python: UnboundLocalError / NameError)
        self.raise_(p, 'UnboundLocalError', 'name %s read before assignment (line %s)' % (e.id, e.lineno))
        return []
      raise

  def ev_JoinedStr(self, e, p, module):
    return [(p, VOpaque('fstring'))]

  def ev_Tuple(self, e, p, module):
    if any(isinstance(x, ast.Starred) for x in e.elts):
      raise Unsupported('starred in tuple')
    return [(q, VTuple(vs)) for q, vs in self.ev_list(e.elts, p, module)]

  def ev_List(self, e, p, module):
    return [(q, VList(vs)) for q, vs in self.ev_list(e.elts, p, module)]

  def ev_Set(self, e, p, module):
    return [(q, VList(vs)) for q, vs in self.ev_list(e.elts, p, module)]

  def ev_Dict(self, e, p, module):
    keys = []
    for k in e.keys:
      if k is None:
        raise Unsupported('dict unpacking in literal')
      if isinstance(k, ast.Constant) and isinstance(k.value, str):
        keys.append(k.value)
        continue
      (q0, kv), = self.ev(k, p, module)
      if not isinstance(kv, VStr):
        raise Unsupported('dict with non-string keys')
      keys.append(kv.s)
    return [(q, VDict(dict(zip(keys, vs)))) for q, vs in self.ev_list(e.values, p, module)]

  def ev_GeneratorExp(self, e, p, module):
    # a generator handed straight to a consumer (sum / any / all / np.sum / list / set ...) is evaluated as the list of its
    # elements; the element expressions of the comprehensions in scope have no side effects the order of which could matter
    return self.ev_ListComp(e, p, module)

  def ev_ListComp(self, e, p, module):
    if len(e.generators) != 1 or not isinstance(e.generators[0].target, ast.Name):
      raise Unsupported('comprehension form (line %d)' % e.lineno)
    g = e.generators[0]
    out = []
    for q, it in self.ev(g.iter, p, module):
      from .libspec_np import VRange
      if g.ifs or isinstance(it, VListRef):
        out += self._filtered_comp(e, g, q, it, module)
        continue
      if isinstance(it, VRange) and len(it.args) == 1 and isinstance(it.args[0], VInt):
        n = it.args[0].t
        i = fresh('i', z3.IntSort())
        saved = q.env.get(g.target.id)
        q.env[g.target.id] = VInt(i)
        q.assume(i >= 0)
        q.assume(i < n)
        for q2, elem in self.ev(e.elt, q, module):
          if saved is None:
            q2.env.pop(g.target.id, None)
          else:
            q2.env[g.target.id] = saved
          out.append((q2, VSymList(n, i, elem)))
      elif isinstance(it, (VList, VTuple)):
        acc = [(q, [])]
        for item in it.items:
          nxt = []
          for q1, vs in acc:
            q1.env[g.target.id] = item
            for q2, v in self.ev(e.elt, q1, module):
              nxt.append((q2, vs + [v]))
          acc = nxt
        out += [(q2, VList(vs)) for q2, vs in acc]
      else:
        raise Unsupported('comprehension over %r (line %d)' % (it, e.lineno))
    return out

  def _filtered_comp(self, e, g, q, it, module):
    """[f(x) for x in it if c(x)] / comprehension over a symbolic list: a list of symbolic length <= len(it) whose generic
    element is f(x) for a generic x satisfying the filters"""
    from .libspec_np import VRange
    if isinstance(it, VRange) and len(it.args) == 1:
      n = it.args[0].t
      x = VInt(fresh('i', z3.IntSort()))
      q.assume(x.t >= 0)
      q.assume(x.t < n)
    elif isinstance(it, VListRef):
      L = q.lists[it.lid]
      n = L['n']
      x = L['elem']
      if x is None:
        lid = fresh_name('l')
        q.lists[lid] = dict(n=fresh('len', z3.IntSort()), elem=None)
        return [(q, VListRef(lid))]
    else:
      raise Unsupported('filtered comprehension over %r (line %d)' % (it, e.lineno))
    saved = q.env.get(g.target.id)
    q.env[g.target.id] = x
    paths = [q]
    for cond in g.ifs:
      nxt = []
      for r in paths:
        for r2, c in self.ev(cond, r, module):
          r2.assume(self.truth(c, r2))
          if feasible(r2.pc):
            nxt.append(r2)
      paths = nxt
    out = []
    for r in paths:
      for r2, elem in self.ev(e.elt, r, module):
        if saved is None:
          r2.env.pop(g.target.id, None)
        else:
          r2.env[g.target.id] = saved
        m = fresh('len', z3.IntSort())
        r2.assume(m >= 0)
        r2.assume(m <= n)
        if not g.ifs:
          r2.assume(m == n)
        lid = fresh_name('l')
        r2.lists[lid] = dict(n=m, elem=elem)
        out.append((r2, VListRef(lid)))
    return out

  def ev_Lambda(self, e, p, module):
    fn = ast.FunctionDef(name='<lambda>', args=e.args, body=[ast.Return(value=e.body)], decorator_list=[],
                         lineno=e.lineno, col_offset=0)
    fn._qual = '<lambda>'
    return [(p, VFunc(fn, module, closure=p.frames[-1]))]

  def ev_IfExp(self, e, p, module):
    out = []
    for q, c in self.ev(e.test, p, module):
      ct = self.truth(c, q)
      for branch, cond in ((e.body, ct), (e.orelse, z3.Not(ct))):
        r = q.fork()
        r.assume(cond)
        if feasible(r.pc):
          out += self.ev(branch, r, module)
    return out

  def ev_UnaryOp(self, e, p, module):
    out = []
    for q, v in self.ev(e.operand, p, module):
      if isinstance(e.op, ast.Not):
        out.append((q, VBool(z3.Not(self.truth(v, q)))))
      elif isinstance(e.op, ast.USub):
        if isinstance(v, VInf):
          out.append((q, VInf(-v.sign)))
        elif self.num(v) is not None:
          out.append((q, self.wrapnum(-self.num(v))))
        elif isinstance(v, VArr):
          out.append((q, self.lib.unop(self, '-', v, q)))
        else:
          raise Unsupported('unary minus on %r' % (v,))
      elif isinstance(e.op, ast.Invert):
        if isinstance(v, VArr):
          out.append((q, self.lib.unop(self, '~', v, q)))
        else:
          raise Unsupported('~ on %r' % (v,))
      elif isinstance(e.op, ast.UAdd):
        out.append((q, v))
      else:
        raise Unsupported('unary op')
    return out

  def ev_BoolOp(self, e, p, module):
    # short-circuit: evaluate left to right, forking when a later operand can have effects; the operands
    # used in metric_learn are pure, so the value is the z3 And/Or of truth values when all are Bool-like,
    # else the python value-returning semantics is needed (x or y) -> unsupported unless bools
    is_and = isinstance(e.op, ast.And)
    acc = [(p, [])]
    for sub in e.values:
      nxt = []
      for q, ts in acc:
        # path condition under which `sub` is evaluated at all
        guard = z3.And(*ts) if is_and else z3.Not(z3.Or(*ts)) if ts else z3.BoolVal(True)
        if ts and not feasible(q.pc + [guard]):
          nxt.append((q, ts + [z3.BoolVal(is_and)]))     # never evaluated: neutral element
          continue
        q.pc.append(guard) if ts else None
        gpos = len(q.pc) - 1 if ts else None
        for q2, v in self.ev(sub, q, module):
          t = self.truth(v, q2)
          if gpos is not None:
            # remove the evaluation guard again: it only served to rule out implicit exceptions
            # in operands that python would not evaluate
            g = q2.pc[gpos]
            q2.pc = q2.pc[:gpos] + q2.pc[gpos + 1:]
            # facts learned while evaluating the operand hold only under the guard
            q2.pc = q2.pc[:gpos] + [z3.Implies(g, c) for c in q2.pc[gpos:]]
          nxt.append((q2, ts + [t]))
      acc = nxt
    return [(q, VBool((z3.And if is_and else z3.Or)(*ts))) for q, ts in acc]

  def ev_Compare(self, e, p, module):
    out = []
    for q, vs in self.ev_list([e.left] + list(e.comparators), p, module):
      ts = []
      for op, l, r in zip(e.ops, vs, vs[1:]):
        ts.append(self.compare(op, l, r, q))
      if len(ts) == 1:
        out.append((q, ts[0]))
      else:
        out.append((q, VBool(z3.And(*[self.truth(t, q) for t in ts]))))
    return out

  def compare(self, op, l, r, p):
    if isinstance(op, (ast.Is, ast.IsNot)):
      t = self.identical(l, r, p)
      return VBool(t if isinstance(op, ast.Is) else z3.Not(t))
    if isinstance(op, (ast.In, ast.NotIn)):
      t = self.contains(r, l, p)
      return VBool(t if isinstance(op, ast.In) else z3.Not(t))
    if isinstance(l, VArr) or isinstance(r, VArr):
      return self.lib.compare(self, op, l, r, p)
    if isinstance(op, (ast.Eq, ast.NotEq)):
      t = self.equal(l, r, p)
      return VBool(t if isinstance(op, ast.Eq) else z3.Not(t))
    # ordering
    if isinstance(l, VInf) or isinstance(r, VInf):
      return VBool(self.cmp_inf(op, l, r))
    a, b = self.num(l), self.num(r)
    if a is None or b is None:
      raise Unsupported('ordering of %r and %r' % (l, r))
    if a.sort() != b.sort():
      a, b = to_real(a), to_real(b)
    t = {ast.Lt: lambda: a < b, ast.LtE: lambda: a <= b, ast.Gt: lambda: a > b, ast.GtE: lambda: a >= b}[type(op)]()
    return VBool(t)

  def cmp_inf(self, op, l, r):
    def key(v):
      return v.sign * 2 if isinstance(v, VInf) else 0      # finite reals sit strictly between -inf and +inf
    if isinstance(l, VInf) and isinstance(r, VInf):
      a, b = l.sign, r.sign
    else:
      a, b = key(l), key(r)
    res = {ast.Lt: a < b, ast.LtE: a <= b, ast.Gt: a > b, ast.GtE: a >= b}[type(op)]
    return z3.BoolVal(res)

  def identical(self, l, r, p):
    if isinstance(l, VNone) or isinstance(r, VNone):
      o = r if isinstance(l, VNone) else l
      if isinstance(o, VNone):
        return z3.BoolVal(True)
      if isinstance(o, VRef):
        return o.t == NONE_REF
      return z3.BoolVal(False)
    if isinstance(l, VInf) and isinstance(r, VInf):
      return z3.BoolVal(l.sign == r.sign)
    if isinstance(l, VInf) or isinstance(r, VInf):
      o = r if isinstance(l, VInf) else l
      if isinstance(o, VReal):
        return z3.BoolVal(False)     # A-real: a Real-sorted value is finite
      if isinstance(o, VRef):
        return z3.Function('is_inf', Ref, z3.BoolSort())(o.t)
      return z3.BoolVal(False)
    la, ra = self.as_ref(l), self.as_ref(r)
    if la is not None and ra is not None:
      return la == ra
    if isinstance(l, VArr) and isinstance(r, VArr):
      return z3.BoolVal(l.loc == r.loc)
    if isinstance(l, VObj) and isinstance(r, VObj):
      return z3.BoolVal(l.oid == r.oid)
    if isinstance(l, VBool) and isinstance(r, VBool):
      return l.t == r.t
    if type(l) != type(r):
      return z3.BoolVal(False)
    raise Unsupported('identity of %r and %r' % (l, r))

  def equal(self, l, r, p):
    if isinstance(l, VStr) and isinstance(r, VStr):
      return z3.BoolVal(l.s == r.s)
    la, ra = self.as_ref(l), self.as_ref(r)
    if la is not None and ra is not None:
      return la == ra
    a, b = self.num(l), self.num(r)
    if a is not None and b is not None:
      if a.sort() != b.sort():
        a, b = to_real(a), to_real(b)
      return a == b
    if isinstance(l, VInf) or isinstance(r, VInf):
      if isinstance(l, VInf) and isinstance(r, VInf):
        return z3.BoolVal(l.sign == r.sign)
      return z3.BoolVal(False)
    if isinstance(l, (VTuple, VList)) and isinstance(r, (VTuple, VList)):
      if type(l) != type(r) or len(l.items) != len(r.items):
        return z3.BoolVal(False)
      return z3.And(*[self.equal(x, y, p) for x, y in zip(l.items, r.items)]) if l.items else z3.BoolVal(True)
    # number vs string / None vs number etc.
    if la is not None or ra is not None:
      o = r if la is not None else l
      if isinstance(o, (VInt, VReal, VBool, VTuple, VList, VDict, VInf)):
        # a Ref symbol compared with a number: an opaque object may equal a number only if it IS that
        # number; for VStr/VNone it is plain False
        if isinstance(l, (VStr, VNone)) or isinstance(r, (VStr, VNone)):
          return z3.BoolVal(False)
        num = self.num(o)
        if num is not None:
          f = z3.Function('ref_num_eq', Ref, z3.RealSort(), z3.BoolSort())
          return f(la if la is not None else ra, to_real(num))
        return z3.BoolVal(False)
    if isinstance(l, VArr) or isinstance(r, VArr):
      raise Unsupported('== on arrays must go through libspec')
    raise Unsupported('equality of %r and %r' % (l, r))

  def contains(self, container, item, p):
    if isinstance(container, (VTuple, VList)):
      if not container.items:
        return z3.BoolVal(False)
      return z3.Or(*[self.equal(item, x, p) for x in container.items])
    if isinstance(container, VDict):
      if isinstance(item, VStr):
        return z3.BoolVal(item.s in container.d)
      raise Unsupported('in dict with symbolic key')
    if isinstance(container, VStr) and isinstance(item, VStr):
      return z3.BoolVal(item.s in container.s)
    if self.lib:
      r = self.lib.contains(self, container, item, p)
      if r is not None:
        return r
    raise Unsupported('membership in %r' % (container,))

  def ev_BinOp(self, e, p, module):
    out = []
    for q, (l, r) in self.ev_list([e.left, e.right], p, module):
      out += self.binop(e.op, l, r, q, e)
    return out

  def binop(self, op, l, r, p, node=None):
    """-> list of (path, value)"""
    if isinstance(l, VArr) or isinstance(r, VArr):
      return self.lib.binop(self, op, l, r, p)
    if isinstance(l, (VStr, VOpaque)) and isinstance(op, (ast.Mod, ast.Add)):
      return [(p, VOpaque('msg'))]
    if isinstance(l, VStr) and isinstance(op, ast.Mult):
      return [(p, VOpaque('msg'))]
    if isinstance(l, (VList, VTuple)) and isinstance(r, (VList, VTuple)) and isinstance(op, ast.Add):
      return [(p, type(l)(l.items + r.items))]
    if isinstance(l, VTuple) and isinstance(r, VInt) and isinstance(op, ast.Mult):
      n = r.conc()
      if n is None:
        raise Unsupported('tuple * symbolic int')
      return [(p, VTuple(l.items * n))]
    if isinstance(l, VInf) or isinstance(r, VInf):
      # IEEE: finite / inf = 0 ; inf +- finite = inf  (all that metric_learn does with an infinite hyper-parameter)
      if isinstance(op, ast.Div) and isinstance(r, VInf) and not isinstance(l, VInf):
        return [(p, VReal(0))]
      if isinstance(op, (ast.Add, ast.Sub)) and isinstance(l, VInf) and not isinstance(r, VInf):
        return [(p, l)]
      if isinstance(op, ast.Add) and isinstance(r, VInf) and not isinstance(l, VInf):
        return [(p, r)]
      raise Unsupported('arithmetic on inf (line %s)' % getattr(node, 'lineno', '?'))
    a, b = self.num(l), self.num(r)
    if a is None or b is None:
      raise Unsupported('binop %s on %r, %r (line %s)' % (type(op).__name__, l, r, getattr(node, 'lineno', '?')))
    bothint = a.sort() == z3.IntSort() and b.sort() == z3.IntSort()
    if isinstance(op, ast.Add):
      t = a + b if bothint else to_real(a) + to_real(b)
    elif isinstance(op, ast.Sub):
      t = a - b if bothint else to_real(a) - to_real(b)
    elif isinstance(op, ast.Mult):
      t = a * b if bothint else to_real(a) * to_real(b)
    elif isinstance(op, ast.Div):
      # A-real: division is total (numpy floats give inf/nan with a warning, not an exception; python-float
      # divisors in metric_learn are hyper-parameters inside their documented non-zero ranges)
      t = to_real(a) / to_real(b)
    elif isinstance(op, ast.FloorDiv):
      if not bothint:
        raise Unsupported('// on reals')
      p.side.append(('assume', 'floordiv-positive-divisor', list(p.pc), b > 0, 'line %s' % getattr(node, 'lineno', '?')))
      t = a / b          # z3 Int division = floor for positive divisors
    elif isinstance(op, ast.Mod):
      if not bothint:
        raise Unsupported('% on reals')
      p.side.append(('assume', 'mod-positive-divisor', list(p.pc), b > 0, 'line %s' % getattr(node, 'lineno', '?')))
      t = a % b
    elif isinstance(op, ast.Pow):
      bc = z3.simplify(b)
      if z3.is_int_value(bc) and 0 <= bc.as_long() <= 4:
        t = z3.IntVal(1) if bothint else z3.RealVal(1)
        for _ in range(bc.as_long()):
          t = t * a
      else:
        raise Unsupported('** with non-constant exponent')
    else:
      raise Unsupported('binop ' + type(op).__name__)
    res = self.wrapnum(t)
    lt_, rt_ = getattr(l, 'tt', None), getattr(r, 'tt', None)
    if lt_ or rt_:
      from . import ttype as TT
      opn = 'sub' if isinstance(op, ast.Sub) else 'add' if isinstance(op, ast.Add) else 'other'
      res.tt = TT.arith(opn, lt_ or TT.INV, rt_ or TT.INV)
    return [(p, res)]

  # ------------------------------------------------------------------------------------- attributes
  def ev_Attribute(self, e, p, module):
    out = []
    for q, base in self.ev(e.value, p, module):
      out += self.getattr_(base, e.attr, q, module, e)
    return out

  def getattr_(self, base, attr, p, module, node=None):
    if isinstance(base, VObj):
      h = p.heap[base.oid]
      if attr in h:
        if attr.endswith('_') and not attr.startswith('_'):
          ev = ('getattr', base.oid, attr)
          if ev not in p.events:
            p.events.append(ev)          # ghost: reads of fitted / bookkeeping attributes (dataflow clauses)
        return [(p, h[attr])]
      if attr == '__class__':
        return [(p, VClass(base.cls))]
      owner, fn = self.prog.resolve_method(base.cls, attr)
      if fn is not None:
        return [(p, VFunc(fn, self.prog.classes[owner].module, bound=base, owner=owner))]
      owner, valnode = self.prog.class_attr(base.cls, attr)
      if valnode is not None:
        return self.ev(valnode, p, self.prog.classes[owner].module)
      absent = p.heap[base.oid].get('__absent__', set())
      if attr in absent or p.heap[base.oid].get('__closed__'):
        self.raise_(p, 'AttributeError', 'read of %s.%s' % (base.cls, attr))
        return []
      raise Unsupported('attribute %s of %s not declared by the contract (line %s)'
                        % (attr, base.cls, getattr(node, 'lineno', '?')))
    if isinstance(base, VExt):
      try:
        obj = getattr(base.obj, attr)
      except AttributeError:
        raise Unsupported('external attribute %s.%s missing' % (base.dotted, attr))
      return [(p, self.lift(obj, base.dotted + '.' + attr) if not callable(obj) and not isinstance(obj, type(ast))
               else VExt(obj, base.dotted + '.' + attr))]
    if isinstance(base, VClass):
      if attr == '__name__':
        return [(p, VStr(base.name))]
      if base.name in self.prog.classes:
        owner, fn = self.prog.resolve_method(base.name, attr)
        if fn is not None:
          return [(p, VFunc(fn, self.prog.classes[owner].module, owner=owner))]
        owner, valnode = self.prog.class_attr(base.name, attr)
        if valnode is not None:
          return self.ev(valnode, p, self.prog.classes[owner].module)
      raise Unsupported('class attribute %s.%s' % (base.name, attr))
    if isinstance(base, VFunc) and attr == '__doc__':
      return [(p, VOpaque('doc'))]
    if isinstance(base, VStr) and attr in ('format', 'join'):
      return [(p, VBoundExt(base, attr))]
    if isinstance(base, VOpaque):
      oa = getattr(self.lib, 'opaque_attr', {}).get((base.what.split(':')[0], attr))
      if oa is not None:
        return [(p, oa(base))]
      return [(p, VBoundExt(base, attr))]
    if isinstance(base, VBoundExt) and isinstance(base.recv, VOpaque):
      return [(p, VOpaque(base.recv.what + '.' + base.name + '.' + attr))]
    if isinstance(base, VDict):
      return [(p, VBoundExt(base, attr))]
    if isinstance(base, (VList, VTuple, VSet, VListRef)):
      return [(p, VBoundExt(base, attr))]
    if self.lib:
      r = self.lib.getattr_(self, base, attr, p)
      if r is not None:
        return r
    raise Unsupported('attribute %s of %r (line %s)' % (attr, base, getattr(node, 'lineno', '?')))

  # -------------------------------------------------------------------------------------- subscript
  def ev_Slice(self, e, p, module):
    parts = [e.lower, e.upper, e.step]
    acc = [(p, [])]
    for part in parts:
      nxt = []
      for q, vs in acc:
        if part is None:
          nxt.append((q, vs + [None]))
        else:
          for q2, v in self.ev(part, q, module):
            nxt.append((q2, vs + [v]))
      acc = nxt
    return [(q, VSlice(*vs)) for q, vs in acc]

  def ev_Subscript(self, e, p, module):
    out = []
    for q, base in self.ev(e.value, p, module):
      for q2, idx in self.ev(e.slice, q, module):
        out += self.getitem(base, idx, q2, e)
    return out

  def getitem(self, base, idx, p, node=None):
    if isinstance(base, (VTuple, VList)):
      if isinstance(idx, VInt):
        i = idx.conc()
        if i is None:
          raise Unsupported('symbolic index into python sequence')
        if -len(base.items) <= i < len(base.items):
          return [(p, base.items[i])]
        self.raise_(p, 'IndexError', 'line %s' % getattr(node, 'lineno', '?'))
        return []
      if isinstance(idx, VSlice):
        lo = idx.lo.conc() if idx.lo is not None else None
        hi = idx.hi.conc() if idx.hi is not None else None
        st = idx.step.conc() if idx.step is not None else None
        return [(p, type(base)(base.items[slice(lo, hi, st)]))]
    if isinstance(base, VStr) and isinstance(idx, VInt) and idx.conc() is not None:
      i = idx.conc()
      if -len(base.s) <= i < len(base.s):
        return [(p, VStr(base.s[i]))]
      self.raise_(p, 'IndexError', 'string index line %s' % getattr(node, 'lineno', '?'))
      return []
    if isinstance(base, VListRef) and isinstance(idx, VInt):
      L = p.lists[base.lid]
      bad = p.fork()
      bad.assume(z3.Not(z3.And(idx.t >= -L['n'], idx.t < L['n'])))
      if feasible(bad.pc):
        self.raise_(bad, 'IndexError', 'list index out of range (line %s)' % getattr(node, 'lineno', '?'))
      p.assume(z3.And(idx.t >= -L['n'], idx.t < L['n']))
      if L['elem'] is None:
        raise Unsupported('element of a list of unknown element type')
      return [(p, L['elem'])] if feasible(p.pc) else []
    if isinstance(base, VListRef) and isinstance(idx, VSlice) and idx.lo is None and idx.step is None and isinstance(idx.hi, VInt):
      L = p.lists[base.lid]
      lid = fresh_name('l')
      k = idx.hi.t
      p.lists[lid] = dict(L, n=z3.If(k < 0, z3.IntVal(0), z3.If(L['n'] < k, L['n'], k)))
      return [(p, VListRef(lid))]
    if isinstance(base, VDict):
      if isinstance(idx, VStr):
        if idx.s in base.d:
          return [(p, base.d[idx.s])]
        self.raise_(p, 'KeyError', 'line %s' % getattr(node, 'lineno', '?'))
        return []
      raise Unsupported('dict lookup with symbolic key')
    if self.lib:
      r = self.lib.getitem(self, base, idx, p, node)
      if r is not None:
        return r
    raise Unsupported('subscript of %r with %r (line %s)' % (base, idx, getattr(node, 'lineno', '?')))

  # ------------------------------------------------------------------------------------------- calls
  def ev_Call(self, e, p, module):
    out = []
    for q, f in self.ev(e.func, p, module):
      # positional (with *args) and keyword (with **kwargs) arguments
      arg_nodes = []
      for a in e.args:
        arg_nodes.append(a.value if isinstance(a, ast.Starred) else a)
      kw_nodes = [k.value for k in e.keywords]
      for q2, vs in self.ev_list(arg_nodes + kw_nodes, q, module):
        args = []
        for a, v in zip(e.args, vs):
          if isinstance(a, ast.Starred):
            if isinstance(v, (VTuple, VList)):
              args += v.items
            elif isinstance(v, VArr) and self.lib:
              args += self.lib.unpack(self, v, q2, None)
            else:
              raise Unsupported('*%r' % (v,))
          else:
            args.append(v)
        kwargs = {}
        for k, v in zip(e.keywords, vs[len(e.args):]):
          if k.arg is None:
            if not isinstance(v, VDict):
              raise Unsupported('**%r' % (v,))
            kwargs.update(v.d)
          else:
            kwargs[k.arg] = v
        out += self.call(f, args, kwargs, q2, e, module)
    return out

  def call(self, f, args, kwargs, p, node, module):
    if isinstance(f, VFunc):
      return self.call_internal(f, args, kwargs, p, node)
    if isinstance(f, VClass):
      return self.instantiate(f, args, kwargs, p, node, module)
    if isinstance(f, (VExt, VBoundExt)):
      if self.lib is None:
        raise Unsupported('external call without libspec: %r' % (f,))
      return self.lib.call(self, f, args, kwargs, p, node, module)
    if isinstance(f, VRef):
      # calling an opaque callable (a user preprocessor): libspec decides
      return self.lib.call_opaque(self, f, args, kwargs, p, node)
    if isinstance(f, VObj):
      owner, fn = self.prog.resolve_method(f.cls, '__call__')
      if fn is not None:
        return self.call_internal(VFunc(fn, self.prog.classes[owner].module, bound=f, owner=owner), args, kwargs, p, node)
    raise Unsupported('call of %r (line %s)' % (f, getattr(node, 'lineno', '?')))

  def instantiate(self, c, args, kwargs, p, node, module):
    if c.name in self.prog.classes and not self._is_exception_class(c.name):
      obj = p.new_obj(c.name)
      owner, fn = self.prog.resolve_method(c.name, '__init__')
      if fn is None:
        return [(p, obj)]
      res = self.call_internal(VFunc(fn, self.prog.classes[owner].module, bound=obj, owner=owner), args, kwargs, p, node)
      return [(q, obj) for q, _ in res]
    # exception classes (builtin or metric_learn's)
    return [(p, VExc(c.name, tuple(args)))]

  def _is_exception_class(self, name):
    if name in BUILTIN_EXC:
      return True
    if name in self.prog.classes:
      return any(c in BUILTIN_EXC or c in S._EXC_PARENTS for c in self.prog.classes[name].mro[1:])
    return False

  def bind(self, fn, args, kwargs, p, module, bound=None):
    """python argument binding -> env dict; defaults evaluated in the defining module"""
    a = fn.args
    params = [x.arg for x in a.posonlyargs + a.args]
    env = {}
    args = list(args)
    if bound is not None:
      args = [bound] + args
    if len(args) > len(params) and a.vararg is None:
      raise Unsupported('too many positional arguments for %s' % fn.name)
    for name, v in zip(params, args):
      env[name] = v
    if a.vararg is not None:
      env[a.vararg.arg] = VTuple(args[len(params):])
    extra = {}
    for k, v in kwargs.items():
      if k in params or k in [x.arg for x in a.kwonlyargs]:
        if k in env:
          raise Unsupported('multiple values for argument %s' % k)
        env[k] = v
      elif a.kwarg is not None:
        extra[k] = v
      else:
        return None, 'unexpected keyword %s' % k
    if a.kwarg is not None:
      env[a.kwarg.arg] = VDict(extra)
    nd = len(a.defaults)
    for i, name in enumerate(params):
      if name not in env:
        di = i - (len(params) - nd)
        if di < 0:
          return None, 'missing argument %s' % name
        (q, v), = self.ev(a.defaults[di], p, module)
        env[name] = v
    for x, d in zip(a.kwonlyargs, a.kw_defaults):
      if x.arg not in env:
        if d is None:
          return None, 'missing kw-only argument %s' % x.arg
        (q, v), = self.ev(d, p, module)
        env[x.arg] = v
    return env, None

  def call_internal(self, f, args, kwargs, p, node=None):
    fn = f.node
    qual = '%s:%s' % (f.module, getattr(fn, '_qual', fn.name))
    # static methods are called without self
    bound = f.bound
    if any(isinstance(d, ast.Name) and d.id == 'staticmethod' for d in fn.decorator_list):
      bound = None
    con = self.contracts.get(qual) if self.cfg['modular'] else None
    if con is not None and qual not in self.cfg.get('inline', ()) and qual != self.cfg.get('target'):
      self.used_contracts.add(qual)
      return con.apply(self, f, args, kwargs, p, node, bound)
    if self.depth >= self.cfg['inline_depth']:
      raise Unsupported('inline depth exceeded at ' + qual)
    if qual in self.callstack:
      raise Unsupported('recursion through ' + qual)
    env, err = self.bind(fn, args, kwargs, p, f.module, bound)
    if err:
      self.raise_(p, 'TypeError', '%s: %s' % (qual, err))
      return []
    self.inlined.add(qual)
    if f.closure is not None:
      env['__closure__'] = f.closure
    if f.owner:
      env['__class_ctx__'] = f.owner
    return self.run_body(fn, env, p, f.module, qual)

  def run_body(self, fn, env, p, module, qual):
    saved, self.collect = self.collect, []
    mine = self.collect
    self.depth += 1
    self.callstack.append(qual)
    depth0 = len(p.frames)
    p.frames.append(env)
    try:
      live = self.block(fn.body, [p], module)
    finally:
      self.collect = saved
      self.depth -= 1
      self.callstack.pop()
    results = []
    for q in live:
      if self.depth == 0 and len(q.frames) > depth0:
        q.final_locals = dict(q.frames[depth0])       # ghost: the locals of the function under contract at its exit (for clauses over intermediates)
      q.frames = q.frames[:depth0]
      results.append((q, VNone()))
    for q in mine:
      if self.depth == 0 and len(q.frames) > depth0:
        q.final_locals = dict(q.frames[depth0])
      q.frames = q.frames[:depth0]
      if q.outcome[0] == 'return':
        v = q.outcome[1]
        q.outcome = None
        results.append((q, v))
      else:
        self.collect.append(q)
    return results

  # ------------------------------------------------------------------------------------- statements
  def block(self, stmts, paths, module):
    for st in stmts:
      nxt = []
      for p in paths:
        nxt += self.stmt(st, p, module)
      paths = nxt
      if not paths:
        break
    return paths

  def stmt(self, st, p, module):
    m = getattr(self, 'st_' + type(st).__name__, None)
    if m is None:
      raise Unsupported('statement %s at line %s' % (type(st).__name__, st.lineno))
    return m(st, p, module)

  def st_Expr(self, st, p, module):
    if isinstance(st.value, ast.Constant):
      return [p]                                   # docstring: dropped
    return [q for q, _ in self.ev(st.value, p, module)]

  def st_Pass(self, st, p, module):
    return [p]

  def st_Import(self, st, p, module):
    return [p]

  st_ImportFrom = st_Import

  def st_FunctionDef(self, st, p, module):
    p.env[st.name] = VFunc(st, module, closure=p.frames[-1])
    return [p]

  def st_Return(self, st, p, module):
    if st.value is None:
      self.finish(p, ('return', VNone()))
      return []
    for q, v in self.ev(st.value, p, module):
      self.finish(q, ('return', v))
    return []

  def st_Raise(self, st, p, module):
    if st.exc is None:
      raise Unsupported('bare raise')
    for q, v in self.ev(st.exc, p, module):
      if isinstance(v, VClass):
        v = VExc(v.name)
      if not isinstance(v, VExc):
        raise Unsupported('raise of %r' % (v,))
      self.finish(q, ('raise', v, 'line %d' % st.lineno))
    return []

  def st_Assert(self, st, p, module):
    out = []
    for q, c in self.ev(st.test, p, module):
      t = self.truth(c, q)
      bad = q.fork()
      bad.assume(z3.Not(t))
      if feasible(bad.pc):
        self.raise_(bad, 'AssertionError', 'line %d' % st.lineno)
      q.assume(t)
      if feasible(q.pc):
        out.append(q)
    return out

  def st_If(self, st, p, module):
    if self.cfg['skip_verbose'] and self._is_verbose_block(st):
      self.dropped.append('verbose block line %d' % st.lineno)
      return [p]
    out = []
    for q, c in self.ev(st.test, p, module):
      t = self.truth(c, q)
      a = q.fork()
      a.assume(t)
      b = q
      b.assume(z3.Not(t))
      fa, fb = feasible(a.pc), feasible(b.pc)
      if fa:
        a.trace.append((st.lineno, True))
        out += self.block(st.body, [a], module)
      if fb:
        b.trace.append((st.lineno, False))
        out += self.block(st.orelse, [b], module)
    return out

  def _is_verbose_block(self, st):
    """`if self.verbose:` / `if verbose:` (possibly `... and self.verbose`) whose body only prints"""
    src = ast.unparse(st.test)
    if 'verbose' not in src:
      return False

    def only_prints(body):
      for s in body:
        if isinstance(s, ast.Expr) and isinstance(s.value, ast.Call):
          fn = ast.unparse(s.value.func)
          if fn in ('print', 'sys.stdout.flush'):
            continue
        if isinstance(s, ast.Assign) and all(isinstance(t, ast.Name) for t in s.targets):
          # message bookkeeping (cls_name = ..., header = ...) used only by the prints
          names = {t.id for t in s.targets}
          if names <= {'cls_name', 'header', 'header_fmt', 'header_fields', 'values_fmt', 'start_time', 'count'}:
            continue
        return False
      return True
    return only_prints(st.body) and not st.orelse

  def assign_to(self, target, v, p, module):
    """-> list of paths"""
    if isinstance(target, ast.Name):
      p.env[target.id] = v
      return [p]
    if isinstance(target, (ast.Tuple, ast.List)):
      stars = [i for i, t in enumerate(target.elts) if isinstance(t, ast.Starred)]
      if stars:
        if len(stars) > 1 or not isinstance(v, (VTuple, VList)):
          raise Unsupported('starred assignment from %r' % (v,))
        k = stars[0]
        n_after = len(target.elts) - k - 1
        if len(v.items) < len(target.elts) - 1:
          self.raise_(p, 'ValueError', 'not enough values to unpack (line %s)' % getattr(target, 'lineno', '?'))
          return []
        mid = VList(v.items[k:len(v.items) - n_after])
        items = v.items[:k] + [mid] + (v.items[len(v.items) - n_after:] if n_after else [])
        paths = [p]
        for t, x in zip(target.elts, items):
          tt = t.value if isinstance(t, ast.Starred) else t
          nxt = []
          for q in paths:
            nxt += self.assign_to(tt, x, q, module)
          paths = nxt
        return paths
      items = self.unpack(v, len(target.elts), p, target)
      if items is None:
        return []
      paths = [p]
      for t, x in zip(target.elts, items):
        if isinstance(t, ast.Starred):
          raise Unsupported('starred assignment target')
        nxt = []
        for q in paths:
          nxt += self.assign_to(t, x, q, module)
        paths = nxt
      return paths
    if isinstance(target, ast.Attribute):
      out = []
      for q, base in self.ev(target.value, p, module):
        if isinstance(base, VObj):
          self.on_attr_write(q, base, target.attr, v)
          q.heap[base.oid][target.attr] = v
          out.append(q)
        elif isinstance(base, VFunc) and target.attr == '__doc__':
          out.append(q)
        else:
          raise Unsupported('attribute store on %r' % (base,))
      return out
    if isinstance(target, ast.Subscript):
      out = []
      for q, base in self.ev(target.value, p, module):
        for q2, idx in self.ev(target.slice, q, module):
          out += self.lib.setitem(self, base, idx, v, q2, target)
      return out
    raise Unsupported('assignment target %s' % type(target).__name__)

  def on_attr_write(self, p, obj, attr, v):
    p.events.append(('setattr', obj.oid, attr))

  def unpack(self, v, n, p, node=None):
    if isinstance(v, (VTuple, VList)):
      if len(v.items) != n:
        self.raise_(p, 'ValueError', 'unpack line %s' % getattr(node, 'lineno', '?'))
        return None
      return v.items
    if isinstance(v, VArr) and self.lib:
      return self.lib.unpack(self, v, p, n)
    if isinstance(v, VOpaque):
      return [VOpaque(v.what + '[%d]' % i) for i in range(n)]
    raise Unsupported('unpacking %r' % (v,))

  def st_Assign(self, st, p, module):
    out = []
    for q, v in self.ev(st.value, p, module):
      paths = [q]
      for t in st.targets:
        nxt = []
        for r in paths:
          nxt += self.assign_to(t, v, r, module)
        paths = nxt
      out += paths
    return out

  def st_AugAssign(self, st, p, module):
    out = []
    tgt = st.target
    if isinstance(tgt, ast.Name):
      cur = self.lookup(tgt.id, p, module)
      for q, r in self.ev(st.value, p, module):
        if isinstance(cur, VArr):
          out += self.lib.inplace(self, st.op, cur, r, q, st)
        else:
          for q2, v in self.binop(st.op, cur, r, q, st):
            q2.env[tgt.id] = v
            out.append(q2)
      return out
    if isinstance(tgt, ast.Attribute):
      for q, base in self.ev(tgt.value, p, module):
        for q1, cur in self.getattr_(base, tgt.attr, q, module, tgt):
          for q2, r in self.ev(st.value, q1, module):
            if isinstance(cur, VArr):
              out += self.lib.inplace(self, st.op, cur, r, q2, st)
            else:
              for q3, v in self.binop(st.op, cur, r, q2, st):
                self.on_attr_write(q3, base, tgt.attr, v)
                q3.heap[base.oid][tgt.attr] = v
                out.append(q3)
      return out
    if isinstance(tgt, ast.Subscript):
      for q, base in self.ev(tgt.value, p, module):
        for q1, idx in self.ev(tgt.slice, q, module):
          for q2, r in self.ev(st.value, q1, module):
            for q3, cur in self.getitem(base, idx, q2, tgt):
              for q4, v in self.binop(st.op, cur, r, q3, st):
                out += self.lib.setitem(self, base, idx, v, q4, tgt, augmented=True)
      return out
    raise Unsupported('augmented assignment target')

  def st_With(self, st, p, module):
    for item in st.items:
      src = ast.unparse(item.context_expr)
      if not src.startswith('np.errstate('):
        raise Unsupported('with ' + src)
    return self.block(st.body, [p], module)

  def st_Delete(self, st, p, module):
    out = [p]
    for t in st.targets:
      if not isinstance(t, ast.Subscript):
        raise Unsupported('del of a non-subscript (line %d)' % st.lineno)
      nxt = []
      for q in out:
        for q1, base in self.ev(t.value, q, module):
          for q2, idx in self.ev(t.slice, q1, module):
            if isinstance(base, VListRef) and isinstance(idx, VInt):
              L = dict(q2.lists[base.lid])
              L['n'] = L['n'] - 1
              q2.lists[base.lid] = L
              nxt.append(q2)
            else:
              raise Unsupported('del %r[%r] (line %d)' % (base, idx, st.lineno))
      out = nxt
    return out

  def st_Break(self, st, p, module):
    self.finish(p, ('break',))
    return []

  def st_Continue(self, st, p, module):
    self.finish(p, ('continue',))
    return []

  def st_Try(self, st, p, module):
    if st.finalbody:
      raise Unsupported('try/finally')
    saved, self.collect = self.collect, []
    mine = self.collect
    try:
      live = self.block(st.body, [p], module)
    finally:
      self.collect = saved
    out = []
    if st.orelse:
      live = self.block(st.orelse, live, module)
    out += live
    for q in mine:
      if q.outcome[0] != 'raise':
        self.collect.append(q)
        continue
      exc = q.outcome[1]
      handled = False
      for h in st.handlers:
        if self._handler_matches(h, exc, module):
          q.outcome = None
          if h.name:
            q.env[h.name] = exc
          q.trace.append((h.lineno, 'except'))
          out += self.block(h.body, [q], module)
          handled = True
          break
      if not handled:
        self.collect.append(q)
    return out

  def _handler_matches(self, h, exc, module):
    if h.type is None:
      return True
    types = h.type.elts if isinstance(h.type, ast.Tuple) else [h.type]
    for t in types:
      name = t.id if isinstance(t, ast.Name) else t.attr
      if self.prog.is_subclass(exc.cls, name) if exc.cls in self.prog.classes else S.exc_is_subclass(exc.cls, name):
        return True
    return False

  def st_For(self, st, p, module):
    if self.loop_hook is None:
      raise Unsupported('loop without invariant machinery (line %d)' % st.lineno)
    return self.loop_hook(self, st, p, module)

  st_While = st_For
