"""Sidecar contracts for the real functions, their modular use at call sites, and the generation of the
`body |= contract` obligations.

A contract is keyed by 'module:Qual.name'.  It has entry *cases* (one per combination of python types of
the parameters -- union-typed parameters are split), per-case preconditions, `ensures` clauses for normal
return, `raises` clauses ("raises E iff cond"; cond None = may raise, condition not specified) and a frame.
Clauses are python callables over unwrapped z3 terms, so the same clause can be evaluated on concrete
values at run time (bounded stand-in / replay).
"""
import ast
import z3

from .values import *
from .exec import Executor, Path, Unsupported, feasible
from . import source as S


# --------------------------------------------------------------------------------------------- type specs
class Spec:
  def make(self, name, p, ex):
    raise NotImplementedError


class Int(Spec):
  def __init__(self, lo=None, hi=None):
    self.lo, self.hi = lo, hi

  def make(self, name, p, ex):
    t = z3.Int(name)
    if self.lo is not None:
      p.assume(t >= self.lo)
    if self.hi is not None:
      p.assume(t <= self.hi)
    return VInt(t)


class Real(Spec):
  def make(self, name, p, ex):
    return VReal(z3.Real(name))


class Bool(Spec):
  def make(self, name, p, ex):
    return VBool(z3.Bool(name))


class NoneT(Spec):
  def make(self, name, p, ex):
    return VNone()


class Str(Spec):
  def __init__(self, s):
    self.s = s

  def make(self, name, p, ex):
    return VStr(self.s)


class Inf(Spec):
  def make(self, name, p, ex):
    return VInf(1)


class AnyRef(Spec):
  """opaque python object; `types`: what is known about its python type; `not_none`..."""
  def __init__(self, types=None, among=None, not_in=None):
    self.types, self.among, self.not_in = types, among, not_in

  def make(self, name, p, ex):
    t = z3.Const(name, Ref)
    if self.among is not None:
      p.assume(z3.Or(*[t == strconst(s) for s in self.among]))
    if self.not_in is not None:
      for s in self.not_in:
        p.assume(t != (NONE_REF if s is None else strconst(s)))
    return VRef(t, self.types, name)


class Arr(Spec):
  """array of concrete rank with symbolic dims; value term tracked"""
  def __init__(self, rank, kind='f', owner=None, dims=None, positive_dims=True, tag=None, tt=None):
    self.rank, self.kind, self.owner, self.dims, self.positive_dims, self.tag, self.tt = rank, kind, owner, dims, positive_dims, tag, tt

  def make(self, name, p, ex):
    dims = []
    for k in range(self.rank):
      d = self.dims[k] if self.dims and self.dims[k] is not None else z3.Int('%s.shape%d' % (name, k))
      if isinstance(d, str):
        d = z3.Int(d)
      if isinstance(d, int):
        d = z3.IntVal(d)
      dims.append(d)
      p.assume(d >= (1 if self.positive_dims else 0))
    owner = self.owner if self.owner is not None else frozenset({('param', name)})
    st = ArrState(z3.Const(name, T), Shape(self.rank, dims), self.kind, owner, tag=self.tag, tt=self.tt)
    return p.new_loc(st)


class ArrSym(Spec):
  """array of symbolic rank (validators): only ndim / shape are observable"""
  def __init__(self, kind='f', max_rank=6):
    self.kind, self.max_rank = kind, max_rank

  def make(self, name, p, ex):
    nd = z3.Int(name + '.ndim')
    dims = z3.Function(name + '.dim', z3.IntSort(), z3.IntSort())
    p.assume(nd >= 0)
    p.assume(nd <= self.max_rank)
    k = z3.Int('k!dims')
    p.assume(z3.ForAll([k], dims(k) >= 0))
    st = ArrState(z3.Const(name, T), Shape(nd, dims), self.kind, frozenset({('param', name)}))
    return p.new_loc(st)


class Obj(Spec):
  """instance of a metric_learn class with the given attribute specs; `absent`: attributes known not to be
  set (reading them raises AttributeError); other undeclared attributes make the analysis undecided"""
  def __init__(self, cls, attrs=None, absent=(), closed=False):
    self.cls, self.attrs, self.absent, self.closed = cls, attrs or {}, set(absent), closed

  def make(self, name, p, ex):
    o = p.new_obj(self.cls)
    for k, spec in self.attrs.items():
      p.heap[o.oid][k] = spec.make('%s.%s' % (name, k), p, ex) if isinstance(spec, Spec) else spec
    p.heap[o.oid]['__absent__'] = set(self.absent)
    if self.closed:
      p.heap[o.oid]['__closed__'] = True
    return o


class DictOf(Spec):
  def __init__(self, items):
    self.items = items

  def make(self, name, p, ex):
    return VDict({k: s.make('%s[%s]' % (name, k), p, ex) for k, s in self.items.items()})


class TupleOf(Spec):
  def __init__(self, items):
    self.items = items

  def make(self, name, p, ex):
    return VTuple([s.make('%s[%d]' % (name, i), p, ex) for i, s in enumerate(self.items)])


class Opaque(Spec):
  def __init__(self, what=''):
    self.what = what

  def make(self, name, p, ex):
    return VOpaque(self.what or name)


class Rng(Spec):
  """a numpy RandomState obtained from check_random_state(<int seed>) by the caller"""
  def __init__(self, source='int-seed'):
    self.source = source

  def make(self, name, p, ex):
    from .libspec_shape import new_extobj
    return new_extobj(p, 'rng', source=self.source, seed=None)


class Const(Spec):
  def __init__(self, v):
    self.v = v

  def make(self, name, p, ex):
    return self.v


# ------------------------------------------------------------------------------------- unwrapped views
class ArrView:
  def __init__(self, st, loc=None):
    self.st, self.loc = st, loc

  @property
  def term(self):
    return self.st.term

  @property
  def ndim(self):
    return self.st.shape.ndim()

  def dim(self, i):
    if self.st.shape.concrete and isinstance(i, int) and not (-self.st.shape.rank <= i < self.st.shape.rank):
      return z3.Int('dim-out-of-rank')        # only reachable under a false antecedent on the rank
    return self.st.shape.dim(i)

  @property
  def shape(self):
    return [self.st.shape.dim(k) for k in range(self.st.shape.rank)]

  @property
  def kind(self):
    return self.st.kind

  @property
  def vf(self):
    return self.st.vf

  @property
  def tt(self):
    return self.st.tt or 'inv'

  @property
  def owner(self):
    return self.st.owner


class ObjView:
  def __init__(self, p, obj):
    object.__setattr__(self, '_p', p)
    object.__setattr__(self, '_obj', obj)

  def __getattr__(self, k):
    h = self._p.heap[self._obj.oid]
    if k not in h:
      raise AttributeError(k)
    return unwrap(h[k], self._p)

  def has(self, k):
    return k in self._p.heap[self._obj.oid] and not k.startswith('__')

  def raw(self, k):
    return self._p.heap[self._obj.oid].get(k)

  @property
  def cls(self):
    return self._obj.cls


def unwrap(v, p):
  if isinstance(v, (VInt, VReal, VBool, VRef)):
    return v.t
  if isinstance(v, VNone):
    return None
  if isinstance(v, VStr):
    return v.s
  if isinstance(v, VArr):
    return ArrView(p.store[v.loc], v.loc)
  if isinstance(v, (VTuple, VList)):
    return tuple(unwrap(x, p) for x in v.items)
  if isinstance(v, VObj):
    return ObjView(p, v)
  if isinstance(v, VDict):
    return {k: unwrap(x, p) for k, x in v.d.items()}
  return v


class Args:
  """namespace of unwrapped argument values handed to contract clauses"""
  def __init__(self, env, p, old=None, entry_store=None):
    self._env, self._p, self._old, self._entry_store = env, p, old, entry_store

  def at_entry(self, k):
    """view of array parameter k as it was ON ENTRY (a.k shows the current store, i.e. the post-state of an array the body mutates in place)"""
    v = self._env[k]
    return ArrView(self._entry_store[v.loc], v.loc)

  def __getattr__(self, k):
    if k.startswith('_'):
      raise AttributeError(k)
    if k not in self._env:
      raise AttributeError(k)
    return unwrap(self._env[k], self._p)

  def raw(self, k):
    return self._env[k]

  @property
  def path(self):
    return self._p

  @property
  def old(self):
    return self._old


# ----------------------------------------------------------------------------------------------- contract
class Case:
  def __init__(self, name, params, pre=None, witness=None, never_returns=False):
    self.name, self.params, self.pre, self.witness, self.never_returns = name, params, pre, witness, never_returns


def body_only(fn):
  """marks an ensures clause that speaks about intermediates of the body (ghost `final_locals`, call log of the body): it is an obligation
  of the body, and is NOT assumed at call sites (where those intermediates do not exist)"""
  fn.body_only = True
  return fn


class Returns:
  """how to build the symbolic result at a call site: fn(args, path, ex) -> V"""
  def __init__(self, fn):
    self.fn = fn


class Contract:
  def __init__(self, target, cases, ensures=None, raises=None, returns=None, modifies=None, prop=None,
               allow_other_exits=False, match=None, notes='', events=None, frame_attrs=None, consumes=()):
    self.target = target
    self.cases = cases
    self.ensures = ensures or {}       # name -> fn(a, result) -> z3 Bool   (None = clause does not apply in this case)
    self.raises = raises or {}         # ExcName -> fn(a) -> z3 Bool | None
    self.returns = returns             # Returns
    self.modifies = modifies           # None (unspecified) or set of self attributes the function may assign
    self.prop = prop or []
    self.match = match                 # fn(env, p) -> case name, for modular use
    self.notes = notes
    self.events = events or {}         # name -> fn(a, events) -> z3 Bool / bool   (ghost event clauses)
    self.frame_attrs = frame_attrs
    self.consumes = tuple(consumes)   # array parameters the function writes in place: every caller must own them
    self.on_raise = {}                # name -> fn(a, events, exception class name) -> Bool: clauses about exceptional exits

  # ---- modular use at a call site -------------------------------------------------------------------
  def apply(self, ex, f, args, kwargs, p, node, bound):
    fn = f.node
    env, err = ex.bind(fn, args, kwargs, p, f.module, bound)
    if err:
      ex.raise_(p, 'TypeError', '%s: %s' % (self.target, err))
      return []
    for v in env.values():
      refine_rank(p, v)
    case = self.pick_case(env, p, ex)
    if case is None:
      raise Unsupported('no case of contract %s matches the call at line %s' % (self.target, getattr(node, 'lineno', '?')))
    a = Args(env, p, entry_store=dict(p.store))
    if case.pre is not None:
      pre = case.pre(a)
      p.side.append(('pre', '%s/requires[%s]' % (self.target, case.name), list(p.pc), pre,
                     'call at line %s' % getattr(node, 'lineno', '?')))
      p.assume(pre)
    for name in self.consumes:
      v = env.get(name)
      if isinstance(v, VArr):
        st_ = p.store[v.loc]
        p.side.append(('own', 'inplace-write-owned:arg-%s-of-%s@L%s' % (name, self.target, getattr(node, 'lineno', '?')), list(p.pc),
                       z3.BoolVal(len(st_.owner) == 0),
                       '%s writes its argument %s in place; the array passed may share memory with %s' % (self.target, name, sorted(st_.owner))))
        p.store[v.loc] = st_.replace(term=fresh('w', T), version=st_.version + 1)
    out = []
    not_raised = []
    for exc, cond in self.raises.items():
      kind, fn = _rc(cond)
      c = fn(a) if fn is not None else None
      if c is False or (z3.is_expr(c) and z3.is_false(z3.simplify(c))):
        continue
      q = p.fork()
      if c is not None and c is not True:
        q.assume(c)
        if kind == 'iff':
          not_raised.append(z3.Not(c))
      elif c is True and kind == 'iff':
        not_raised.append(z3.BoolVal(False))
      if feasible(q.pc):
        ex.raise_(q, exc, 'contract %s' % self.target)
    for c in not_raised:
      p.assume(c)
    if not feasible(p.pc):
      return out
    if self.modifies and bound is not None:
      for attr in self.modifies:
        pass   # attribute effects are described by the Returns builder (it may assign on the heap)
    res = self.returns.fn(a, p, ex) if self.returns else VNone()
    for name, cl in self.ensures.items():
      if getattr(cl, 'body_only', False):
        continue
      c = cl(a, unwrap(res, p))
      if c is not None and c is not True:
        p.assume(c)
    p.events.append(('call', self.target, dict(env), res))
    # translation typing of the result (C19): a contract-specific rule, else the conservative default
    from . import ttype as TT
    if getattr(self, 'tt_rule', None) is not None:
      self.tt_rule(env, p, res)
    else:
      TT.default_result(p, res, [v for k, v in env.items() if k != 'self'])
    out.append((p, res))
    return out

  def pick_case(self, env, p, ex):
    if self.match is not None:
      nm = self.match(env, p)
      for c in self.cases:
        if c.name == nm:
          return c
      return None
    for c in self.cases:
      if all(_spec_matches(spec, env.get(k), p) for k, spec in c.params.items()):
        return c
    return None


def _spec_matches(spec, v, p):
  if v is None:
    return False
  table = [(Int, VInt), (Real, (VReal, VInt)), (Bool, VBool), (NoneT, VNone), (Inf, VInf), (Obj, VObj),
           (DictOf, VDict), (TupleOf, VTuple), (Opaque, V)]
  if isinstance(spec, Str):
    return isinstance(v, VStr) and v.s == spec.s
  if isinstance(spec, AnyRef):
    return isinstance(v, (VRef, VStr, VNone)) or True
  if isinstance(spec, Arr):
    return isinstance(v, VArr) and p.store[v.loc].shape.concrete and p.store[v.loc].shape.rank == spec.rank
  if isinstance(spec, ArrSym):
    return isinstance(v, VArr)
  if isinstance(spec, Const):
    return True
  for s, vt in table:
    if isinstance(spec, s):
      return isinstance(v, vt)
  return False


class Iff:
  """raises E exactly when cond(a) holds"""
  def __init__(self, fn):
    self.fn = fn


class OnlyIf:
  """E may be raised, and only when cond(a) holds"""
  def __init__(self, fn):
    self.fn = fn


class May:
  """E may be raised; the condition is not specified (an external validator decides)"""
  fn = None


def _rc(cond):
  """normalise a raises entry -> (kind, fn)"""
  if cond is None or isinstance(cond, May) or cond is May:
    return 'may', None
  if isinstance(cond, OnlyIf):
    return 'onlyif', cond.fn
  if isinstance(cond, Iff):
    return 'iff', cond.fn
  return 'iff', cond


def refine_rank(p, v, timeout=1500):
  """if the path condition fixes the rank of a symbolic-rank array, make the shape concrete"""
  if not isinstance(v, VArr):
    return
  st = p.store[v.loc]
  if st.shape.concrete:
    return
  s = z3.Solver()
  s.set(timeout=timeout)
  s.add(*p.pc)
  if s.check() != z3.sat:
    return
  k = s.model().eval(st.shape.rank, model_completion=True)
  if not z3.is_int_value(k):
    return
  s.add(st.shape.rank != k)
  if s.check() == z3.unsat:
    k = k.as_long()
    p.store[v.loc] = st.replace(shape=Shape(k, [st.shape.dims(z3.IntVal(i)) for i in range(k)]))


REGISTRY = {}


def register(c):
  REGISTRY[c.target] = c
  return c


# --------------------------------------------------------------------------------------- obligations
class Obligation:
  def __init__(self, oid, kind, assumptions, goal, info=None, prop=None):
    self.id, self.kind, self.assumptions, self.goal, self.info, self.prop = oid, kind, assumptions, goal, info or {}, prop
    self.axioms_only = None          # restrict the theory (e.g. 'ieee': identities that are exact in binary64)
    self.status = None
    self.result = None

  def summary(self):
    return dict(id=self.id, kind=self.kind, status=self.status,
                backend=getattr(self.result, 'backend', None), seconds=round(getattr(self.result, 'seconds', 0.0), 4),
                info={k: str(v)[:300] for k, v in self.info.items()})


class Undecided(Exception):
  pass


def outcome_sig(q):
  oc = q.outcome
  if oc is None:
    return ('fallthrough',)
  if oc[0] == 'raise':
    return ('raise', oc[1].cls)
  return (oc[0],)


def body_obligations(prog, contract, lib=None, contracts=None, config=None, loop_hook=None, only_case=None):
  """symbolically executes the REAL body of contract.target once per case and returns the list of
  obligations `body |= contract` plus bookkeeping (paths, notes, dropped constructs)."""
  fn = prog.func(contract.target)
  module = contract.target.split(':')[0]
  obls = []
  report = dict(target=contract.target, cases={}, dropped=[], used_contracts=set(), inlined=set(), externals=set(),
                lines=(fn.lineno, fn.end_lineno))
  for case in contract.cases:
    if only_case is not None and case.name != only_case:
      continue
    cfg = dict(config or {})
    cfg['target'] = contract.target
    ex = Executor(prog, lib, contracts if contracts is not None else REGISTRY, cfg)
    ex.loop_hook = loop_hook
    p = Path()
    env = {}
    params = [x.arg for x in fn.args.posonlyargs + fn.args.args + fn.args.kwonlyargs]
    if fn.args.kwarg is not None:
      params.append(fn.args.kwarg.arg)
    for name in params:
      if name not in case.params:
        raise Undecided('contract %s case %s does not type parameter %s of the current signature'
                        % (contract.target, case.name, name))
      env[name] = case.params[name].make(name, p, ex)
    for name in case.params:
      if name not in params and not name.startswith('__'):
        raise Undecided('contract %s case %s names parameter %s which the current signature lacks'
                        % (contract.target, case.name, name))
    entry_env = dict(env)          # parameters are mutable locals: clauses speak about ENTRY values
    a0 = Args(entry_env, p)
    if case.pre is not None:
      p.assume(case.pre(a0))
    entry_pc = list(p.pc)
    if not feasible(entry_pc, 5000):
      obls.append(Obligation('%s/vacuity[%s]' % (contract.target, case.name), 'vacuity', [], z3.BoolVal(False),
                             dict(why='precondition of the case is unsatisfiable')))
      continue
    # closure context for nested functions is not available: nested targets are verified through their parent
    entry_heap = {k: dict(v) for k, v in p.heap.items()}
    entry_store = dict(p.store)
    try:
      outer = getattr(contract, 'outer', None)
      if outer is None:
        results = ex.run_body(fn, dict(entry_env), p, module, contract.target)
      else:
        # nested function: run the enclosing function first and call the closure it returns
        otarget, ospecs = outer
        ofn = prog.func(otarget)
        oenv = {k: spec.make(k, p, ex) for k, spec in ospecs.items()}
        for k, v in oenv.items():
          entry_env.setdefault(k, v)
        entry_heap = {k: dict(v) for k, v in p.heap.items()}
        inner_env = {k: v for k, v in entry_env.items() if k in params}
        results = []
        for q, v in ex.run_body(ofn, dict(oenv), p, module, otarget):
          if not (isinstance(v, VFunc) and v.node is fn):
            raise Undecided('%s: enclosing function does not return the nested function' % contract.target)
          e2 = dict(inner_env)
          e2['__closure__'] = v.closure
          results += ex.run_body(fn, e2, q, module, contract.target)
    except Unsupported as e:
      raise Undecided('%s [case %s]: %s' % (contract.target, case.name, e))
    finished = [(q, ('return', v)) for q, v in results] + [(q, q.outcome) for q in ex.collect]
    report['cases'][case.name] = dict(paths=len(finished), outcomes=sorted({str(outcome_sig_oc(oc)) for _, oc in finished}))
    report['dropped'] += ex.dropped
    report['used_contracts'] |= ex.used_contracts
    report.setdefault('sidecars_used', set()).update(ex.sidecars_used)
    report['inlined'] |= ex.inlined
    report['externals'] |= ex.externals_used
    seen_outcomes = set()
    seen_const = set()
    for k, (q, oc) in enumerate(finished):
      a = Args(entry_env, q, old=entry_heap, entry_store=entry_store)
      tag = '%s[%s]#p%d' % (contract.target, case.name, k)
      # side obligations emitted on the path (callee preconditions, ownership, well-formedness)
      for kind, name, pc, goal, info in q.side:
        if kind == 'assume':
          continue
        const_true = z3.is_true(goal) if z3.is_expr(goal) else goal is True
        key = (case.name, kind, name)
        if const_true:
          # path-independent facts (call binds against the installed signature, write hits an owned array): one per site
          if key in seen_const:
            continue
          seen_const.add(key)
        else:
          # paths that forked AFTER the obligation was emitted carry identical copies (same hypotheses, same goal): prove once
          k2 = (case.name, kind, name, tuple(t.get_id() for t in pc), goal.get_id() if z3.is_expr(goal) else goal)
          if k2 in seen_const:
            continue
          seen_const.add(k2)
        obls.append(Obligation('%s/%s@%s' % (tag, kind, name), kind, pc, goal, dict(info=info)))
      if oc[0] == 'return':
        seen_outcomes.add('return')
        res = unwrap(oc[1], q)
        for name, cl in contract.ensures.items():
          try:
            g = cl(a, res)
          except Exception as e:
            raise Undecided('%s: ensures.%s not evaluable on path %d: %r' % (contract.target, name, k, e))
          if g is None:
            continue
          obls.append(Obligation('%s/ensures.%s' % (tag, name), 'ensures', list(q.pc), _b(g),
                                 dict(result=str(oc[1])[:200], trace=q.trace[-6:],
                                      **({'pattern_mismatch': g.why or 'yes'} if isinstance(g, PatternMismatch) else {}))))
        # completeness of the raises clauses: a normal return is only allowed when no iff-condition holds
        for exc, cond in contract.raises.items():
          kind, rfn = _rc(cond)
          if kind != 'iff':
            continue
          c = rfn(a)
          if c is None:
            continue
          obls.append(Obligation('%s/returns-only-if-not.%s' % (tag, exc), 'raises-complete', list(q.pc), z3.Not(_b(c)),
                                 dict(trace=q.trace[-6:])))
        for name, cl in contract.events.items():
          g = cl(a, q.events, res)
          if g is None:
            continue
          obls.append(Obligation('%s/events.%s' % (tag, name), 'events', list(q.pc), _b(g),
                                 dict(events=str(q.events)[:300], **({'pattern_mismatch': g.why or 'yes'} if isinstance(g, PatternMismatch) else {}))))
        if contract.modifies is not None and 'self' in env and isinstance(env['self'], VObj):
          written = {e[2] for e in q.events if e[0] == 'setattr' and e[1] == env['self'].oid}
          extra = written - set(contract.modifies)
          obls.append(Obligation('%s/modifies' % tag, 'frame', list(q.pc), z3.BoolVal(not extra),
                                 dict(written=sorted(written), allowed=sorted(contract.modifies))))
      elif oc[0] == 'raise':
        exc = oc[1].cls
        seen_outcomes.add(exc)
        for name, cl in contract.on_raise.items():
          g = cl(a, q.events, exc)
          if g is not None:
            obls.append(Obligation('%s/on-raise.%s' % (tag, name), 'events', list(q.pc), _b(g), dict(exc=exc, where=oc[2] if len(oc) > 2 else '')))
        declared = None
        for e2 in contract.raises:
          if e2 == exc:
            declared = e2
        if declared is None:
          obls.append(Obligation('%s/no-undeclared-exit.%s' % (tag, exc), 'exits', list(q.pc), z3.BoolVal(False),
                                 dict(where=oc[2] if len(oc) > 2 else '', trace=q.trace[-6:])))
        else:
          kind, rfn = _rc(contract.raises[declared])
          if rfn is not None:
            c = rfn(a)
            if c is not None:
              obls.append(Obligation('%s/raises.%s' % (tag, exc), 'raises', list(q.pc), _b(c),
                                     dict(where=oc[2] if len(oc) > 2 else '', trace=q.trace[-6:])))
      else:
        raise Undecided('%s: path ends in %s' % (contract.target, oc[0]))
    report['cases'][case.name]['seen'] = sorted(seen_outcomes)
    # vacuity / reachability guard: a case must reach a normal return unless the contract says it never returns
    expects_return = not getattr(case, 'never_returns', False) and not any(
        _rc(c)[0] == 'iff' and _rc(c)[1] is not None and _always(_rc(c)[1], a0) for c in contract.raises.values())
    if expects_return and contract.ensures:
      obls.append(Obligation('%s[%s]/reachability.some-path-returns' % (contract.target, case.name), 'vacuity', [],
                             z3.BoolVal('return' in seen_outcomes), dict(seen=sorted(seen_outcomes))))
  return obls, report


def _always(fn, a):
  try:
    c = fn(a)
  except Exception:
    return False
  if c is True:
    return True
  return z3.is_expr(c) and z3.is_true(z3.simplify(c))


def outcome_sig_oc(oc):
  if oc[0] == 'raise':
    return 'raise ' + oc[1].cls
  return oc[0]


class PatternMismatch:
  """result of a clause that is decided by recognising the TERM the executor built for a documented formula: the term was not one of the
  recognised forms.  That is not a refutation (an unrecognised but equivalent spelling looks the same), so such an obligation is never
  promoted to a violation by the baseline rule: it is `undecided` unless the stand-in replays a failing input for the function."""
  def __init__(self, why=''):
    self.why = why


def _b(g):
  if isinstance(g, bool):
    return z3.BoolVal(g)
  if isinstance(g, PatternMismatch):
    return z3.BoolVal(False)
  return g


def explore(prog, contract, case_name, lib, overrides=None, loop_hook=None, config=None):
  """symbolic execution of the real body of contract.target for one case; `overrides` replaces parameter specs
  (used by property lemmas that run the same body on related inputs).  -> list of (path, outcome, Args)"""
  fn = prog.func(contract.target)
  module = contract.target.split(':')[0]
  case = [c for c in contract.cases if c.name == case_name][0]
  cfg = dict(config or {})
  cfg['target'] = contract.target
  ex = Executor(prog, lib, REGISTRY, cfg)
  ex.loop_hook = loop_hook
  p = Path()
  specs = dict(case.params)
  specs.update(overrides or {})
  params = [x.arg for x in fn.args.posonlyargs + fn.args.args + fn.args.kwonlyargs]
  env = {}
  outer = getattr(contract, 'outer', None)
  if outer is not None:
    for k, spec in outer[1].items():
      env[k] = spec.make(k, p, ex) if isinstance(spec, Spec) else spec
  for name in params:
    sp = specs[name]
    env[name] = sp.make(name, p, ex) if isinstance(sp, Spec) else sp
  entry_env = dict(env)
  if case.pre is not None:
    p.assume(case.pre(Args(entry_env, p)))
  try:
    if outer is None:
      results = ex.run_body(fn, dict(entry_env), p, module, contract.target)
    else:
      ofn = prog.func(outer[0])
      results = []
      for q, v in ex.run_body(ofn, {k: entry_env[k] for k in outer[1]}, p, module, outer[0]):
        e2 = {k: v2 for k, v2 in entry_env.items() if k in params}
        e2['__closure__'] = v.closure
        results += ex.run_body(fn, e2, q, module, contract.target)
  except Unsupported as e:
    raise Undecided('%s [case %s]: %s' % (contract.target, case_name, e))
  out = [(q, ('return', v), Args(entry_env, q)) for q, v in results]
  out += [(q, q.outcome, Args(entry_env, q)) for q in ex.collect]
  return out
