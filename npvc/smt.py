"""Back ends: z3 (python API) and cvc5 (binary, SMT-LIB2 text) -- verdict rule of DESIGN.md 1.3."""
import os
import subprocess
import tempfile
import time
import z3

from .values import distinct_axioms
from . import theory

Z3_TIMEOUT_MS = int(os.environ.get('NPVC_Z3_TIMEOUT_MS', '20000'))
CVC5 = '/usr/bin/cvc5'


class Result:
  def __init__(self, status, backend, seconds, model=None, reason=''):
    self.status, self.backend, self.seconds, self.model, self.reason = status, backend, seconds, model, reason


def has_quantifier(fs):
  seen = set()

  def walk(t):
    if t.get_id() in seen:
      return False
    seen.add(t.get_id())
    if z3.is_quantifier(t):
      return True
    return any(walk(c) for c in t.children())
  return any(walk(f) for f in fs)


_NLMUL = z3.Function('nl!mul', z3.RealSort(), z3.RealSort(), z3.RealSort())
_NLDIV = z3.Function('nl!div', z3.RealSort(), z3.RealSort(), z3.RealSort())
_NLMULI = z3.Function('nl!muli', z3.IntSort(), z3.IntSort(), z3.IntSort())


def _is_num(t):
  return z3.is_rational_value(t) or z3.is_int_value(t) or (z3.is_app(t) and t.decl().kind() == z3.Z3_OP_TO_REAL and z3.is_int_value(t.arg(0)))


def abstract_nl(fs):
  """replace every NON-LINEAR product / quotient (two or more non-numeral factors, non-numeral divisor) by an application of an
  uninterpreted function.  The abstraction only forgets facts about * and /, so `unsat` of the abstracted query implies `unsat`
  of the original one (sound for discharging; `sat` / `unknown` of the abstraction mean nothing).  -> (formulas, changed?)"""
  cache = {}
  changed = [False]

  def walk(t):
    k = t.get_id()
    if k in cache:
      return cache[k]
    if z3.is_quantifier(t):
      nv = t.num_vars()
      cs = [z3.Const('nl!v%d!%s' % (i, t.var_name(i)), t.var_sort(i)) for i in range(nv)]
      body = walk(z3.substitute_vars(t.body(), *reversed(cs)))
      pats = []
      for i in range(t.num_patterns()):
        pt = t.pattern(i)
        pats.append(z3.MultiPattern(*[walk(z3.substitute_vars(pt.arg(j), *reversed(cs))) for j in range(pt.num_args())])
                    if pt.num_args() > 1 else walk(z3.substitute_vars(pt.arg(0), *reversed(cs))))
      r = (z3.ForAll if t.is_forall() else z3.Exists)(cs, body, patterns=pats) if pats else (z3.ForAll if t.is_forall() else z3.Exists)(cs, body)
    elif z3.is_app(t):
      ch = [walk(c) for c in t.children()]
      dk = t.decl().kind()
      if dk == z3.Z3_OP_MUL:
        nums = [c for c in ch if _is_num(c)]
        oth = [c for c in ch if not _is_num(c)]
        if len(oth) >= 2:
          changed[0] = True
          f = _NLMUL if t.sort() == z3.RealSort() else _NLMULI
          acc = oth[0]
          for c in oth[1:]:
            acc = f(acc, c)
          for c in nums:
            acc = c * acc
          r = acc
        else:
          r = t.decl()(*ch) if ch else t
      elif dk == z3.Z3_OP_DIV and not _is_num(ch[1]):
        changed[0] = True
        r = _NLDIV(ch[0], ch[1])
      else:
        r = t.decl()(*ch) if ch else t
    else:
      r = t
    cache[k] = r
    return r
  out = [walk(f) for f in fs]
  return out, changed[0]


def prove(assumptions, goal, use_theory=True, timeout_ms=None, extra_axioms=(), axioms_only=None):
  """conjunctive goals are split into one query per conjunct (smaller, more stable queries)"""
  if z3.is_true(goal):
    r = Result('discharged', 'trivial', 0.0)
    r.axioms, r._solver = [], None
    return r
  if z3.is_and(goal) and len(goal.children()) > 1:
    total = 0.0
    axs = set()
    res = None
    for g in goal.children():
      r = prove(assumptions, g, use_theory, timeout_ms, extra_axioms, axioms_only)
      total += r.seconds
      axs |= set(r.axioms)
      if r.status != 'discharged':
        r.seconds = total
        return r
      res = r
    res.seconds = total
    res.axioms = sorted(axs)
    return res
  return prove1(assumptions, goal, use_theory, timeout_ms, extra_axioms, axioms_only)


def prove1(assumptions, goal, use_theory=True, timeout_ms=None, extra_axioms=(), axioms_only=None):
  """valid(assumptions => goal)?  -> Result(status in discharged/refuted/unknown).
  Portfolio: the axioms whose head symbols occur in the query itself first (small query), then the closure
  (axioms reachable through other axioms), each with two random seeds; first definite answer wins.  `sat` is
  only reported from the largest axiom set (a model of a subset of the axioms refutes nothing)."""
  t0 = time.time()
  base = list(assumptions) + list(distinct_axioms()) + list(extra_axioms)
  budget = timeout_ms or Z3_TIMEOUT_MS
  if use_theory:
    small = theory.select_axioms(base + [goal], closure=False)
    mid = theory.select_axioms(base + [goal], closure=True, rounds=1)
    full = theory.select_axioms(base + [goal], closure=True)
    goalset = theory.select_axioms([goal], closure=True)          # what the symbols of the GOAL alone reach
  else:
    small = mid = full = goalset = []
  if axioms_only is not None:
    small = mid = full = goalset = [a for a in theory.AXIOMS if a.name in axioms_only or axioms_only == 'ieee' and a.ieee]
  # Iterative deepening over four axiom sets: everything reachable (`full`), what the symbols of the goal alone reach, the symbols of the
  # query, and one round more.  Large sets make e-matching wander -- and which way depends on incidental orderings --, small sets may miss a
  # lemma; a short first pass finds the quick proofs in whichever set has one, the later passes give the slower ones room.
  sets = []
  for cand in (full, goalset, small, mid):
    if not any(len(cand) == len(x) for x in sets):
      sets.append(cand)
  plans = []
  for k_, tmo in enumerate((max(300, budget // 40), budget // 8, budget // 2)):
    for axs_ in sets:
      plans.append((axs_, (0, 7, 11)[k_], tmo))
  last = None
  for axs, seed, tmo in plans:
    s = z3.Solver()
    s.set(timeout=max(500, tmo))
    if seed:
      s.set('random_seed', seed)
      s.set('smt.random_seed', seed) if False else None
    s.add(*base)
    s.add(*[a.formula for a in axs])
    s.add(z3.Not(goal))
    r = s.check()
    last = (s, axs, r)
    if r == z3.unsat:
      res = Result('discharged', 'z3', time.time() - t0)
      break
    if r == z3.sat and axs is full:
      res = Result('refuted', 'z3', time.time() - t0, model=s.model(),
                   reason='sat' + (' (with quantified axioms: model is a candidate)' if axs else ''))
      break
  else:
    s, axs, r = last
    res = Result('unknown', 'z3', time.time() - t0, reason=s.reason_unknown() if r == z3.unknown else 'sat on a subset of the axioms only')
    # last resort: the same query with non-linear products abstracted to uninterpreted functions (sound for `unsat` only)
    try:
      fs, ch = abstract_nl(base + [z3.Not(goal)])
    except Exception:
      ch = False
    if ch:
      s2 = z3.Solver()
      s2.set(timeout=max(500, budget // 4))
      s2.add(*fs)
      s2.add(*[a.formula for a in full])
      if s2.check() == z3.unsat:
        res = Result('discharged', 'z3 (non-linear terms abstracted)', time.time() - t0)
        last = (s2, full, z3.unsat)
  s, axs, r = last
  res.axioms = [a.name for a in axs]
  res.smt2 = None
  res._solver = s
  return res


def cvc5_check(solver, timeout_s=20):
  """re-check the same query with the cvc5 binary; returns 'unsat' / 'sat' / 'unknown' / 'error:...'"""
  txt = solver.to_smt2()
  with tempfile.NamedTemporaryFile('w', suffix='.smt2', delete=False, dir=os.environ.get('NPVC_SCRATCH')) as f:
    f.write('(set-logic ALL)\n' + txt.replace('(set-logic ALL)', ''))
    name = f.name
  try:
    out = subprocess.run([CVC5, '--tlimit=%d' % (timeout_s * 1000), name], capture_output=True, text=True, timeout=timeout_s + 5)
    first = (out.stdout.strip().splitlines() or ['unknown'])[0]
    if first in ('unsat', 'sat', 'unknown'):
      return first
    return 'error:' + (out.stderr.strip() or first)[:200]
  except subprocess.TimeoutExpired:
    return 'unknown'
  finally:
    os.unlink(name)


def canary(extra_axioms=()):
  """the full axiom set must not prove False (must-fail guard)"""
  s = z3.Solver()
  s.set(timeout=5000)
  s.add(*[a.formula for a in theory.AXIOMS])
  s.add(*extra_axioms)
  return s.check() != z3.unsat
