"""Back ends: z3 (python API) and cvc5 (binary, SMT-LIB2 text) -- verdict rule of DESIGN.md 1.3."""
import os
import subprocess
import tempfile
import time
import z3

from .values import distinct_axioms
from . import theory

Z3_TIMEOUT_MS = int(os.environ.get('NPVC_Z3_TIMEOUT_MS', '20000'))
CVC5 = '/usr/bin/cvc5'


class Result:
  def __init__(self, status, backend, seconds, model=None, reason=''):
    self.status, self.backend, self.seconds, self.model, self.reason = status, backend, seconds, model, reason


def has_quantifier(fs):
  seen = set()

  def walk(t):
    if t.get_id() in seen:
      return False
    seen.add(t.get_id())
    if z3.is_quantifier(t):
      return True
    return any(walk(c) for c in t.children())
  return any(walk(f) for f in fs)


def prove(assumptions, goal, use_theory=True, timeout_ms=None, extra_axioms=()):
  """valid(assumptions => goal)?  -> Result(status in discharged/refuted/unknown)"""
  t0 = time.time()
  s = z3.Solver()
  s.set(timeout=timeout_ms or Z3_TIMEOUT_MS)
  hyps = list(assumptions) + list(distinct_axioms()) + list(extra_axioms)
  axs = []
  if use_theory:
    axs = theory.select_axioms(hyps + [goal])
    hyps += [a.formula for a in axs]
  s.add(*hyps)
  s.add(z3.Not(goal))
  r = s.check()
  dt = time.time() - t0
  res = None
  if r == z3.unsat:
    res = Result('discharged', 'z3', dt)
  elif r == z3.sat:
    res = Result('refuted', 'z3', dt, model=s.model(), reason='sat' + (' (with quantified axioms: model is a candidate)' if axs else ''))
  else:
    res = Result('unknown', 'z3', dt, reason=s.reason_unknown())
  res.axioms = [a.name for a in axs]
  res.smt2 = None
  res._solver = s
  return res


def cvc5_check(solver, timeout_s=20):
  """re-check the same query with the cvc5 binary; returns 'unsat' / 'sat' / 'unknown' / 'error:...'"""
  txt = solver.to_smt2()
  with tempfile.NamedTemporaryFile('w', suffix='.smt2', delete=False, dir=os.environ.get('NPVC_SCRATCH')) as f:
    f.write('(set-logic ALL)\n' + txt.replace('(set-logic ALL)', ''))
    name = f.name
  try:
    out = subprocess.run([CVC5, '--tlimit=%d' % (timeout_s * 1000), name], capture_output=True, text=True, timeout=timeout_s + 5)
    first = (out.stdout.strip().splitlines() or ['unknown'])[0]
    if first in ('unsat', 'sat', 'unknown'):
      return first
    return 'error:' + (out.stderr.strip() or first)[:200]
  except subprocess.TimeoutExpired:
    return 'unknown'
  finally:
    os.unlink(name)


def canary(extra_axioms=()):
  """the full axiom set must not prove False (must-fail guard)"""
  s = z3.Solver()
  s.set(timeout=5000)
  s.add(*[a.formula for a in theory.AXIOMS])
  s.add(*extra_axioms)
  return s.check() != z3.unsat
