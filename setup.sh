#!/bin/bash
# offline build of the verification toolchain: python overlay venv (z3, cvc5, deal, crosshair, jsonschema on top of /venv's numpy/scipy/sklearn)
set -e
cd "$(dirname "$0")"
if [ ! -x .venv/bin/python ] || ! .venv/bin/python -c "import z3, cvc5, deal, jsonschema, numpy, sklearn" 2>/dev/null; then
  rm -rf .venv
  /venv/bin/python -m venv .venv
  echo "import site; site.addsitedir('/venv/lib/python3.12/site-packages')" > .venv/lib/python3.12/site-packages/_overlay.pth
  PIP_NO_INDEX=1 .venv/bin/pip install -q --no-index --find-links /opt/veriftools/wheels z3-solver cvc5 deal crosshair-tool jsonschema icontract hypothesis
fi
.venv/bin/python -c "import z3, cvc5, deal, jsonschema, numpy, sklearn; print('venv ok', z3.get_version_string())"
mkdir -p evidence replays
