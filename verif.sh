#!/bin/bash
# entry point: ./verif.sh check <Cxx> [--tier quick|thorough] | replay <file> | all [--tier ..]
cd "$(dirname "$0")"
# reproducible runs: python's per-process hash randomisation changes incidental orderings (and with them the solver's search); pin it
export PYTHONHASHSEED="${PYTHONHASHSEED:-0}"
[ -x .venv/bin/python ] || ./setup.sh >/dev/null
cmd="$1"; shift
case "$cmd" in
  check)  exec .venv/bin/python check.py "$@" ;;
  replay) exec .venv/bin/python replay.py "$@" ;;
  baseline) # records, per claimed property, the obligations discharged on the CURRENT tree (run on the unchanged tree, then commit baseline/)
          for p in $(.venv/bin/python -c "import json;print(' '.join(c['property_id'] for c in json.load(open('MANIFEST.json'))['checks']))"); do VERIF_WRITE_BASELINE=1 .venv/bin/python check.py $p "$@" | tail -1; done; exit 0 ;;
  all)    rc=0; for p in $(.venv/bin/python -c "import json;print(' '.join(c['property_id'] for c in json.load(open('MANIFEST.json'))['checks']))"); do .venv/bin/python check.py $p "$@" || rc=$?; done; exit $rc ;;
  *) echo "usage: $0 check <Cxx> [--tier quick|thorough] | replay <file> | all"; exit 3 ;;
esac
