import Mathlib
open Matrix

variable {m n : Type*} [Fintype m] [Fintype n] [DecidableEq n]

/-- column means, centring and the sample covariance as `np.cov(X, rowvar=False)` defines it -/
noncomputable def colMean (X : Matrix m n ℝ) : n → ℝ := fun j => (∑ i, X i j) / (Fintype.card m : ℝ)
noncomputable def center (X : Matrix m n ℝ) : Matrix m n ℝ := fun i j => X i j - colMean X j
noncomputable def cov (X : Matrix m n ℝ) : Matrix n n ℝ :=
  (1 / ((Fintype.card m : ℝ) - 1)) • ((center X)ᵀ * center X)

variable [Nonempty m]

theorem card_ne_zero' : (Fintype.card m : ℝ) ≠ 0 := by
  have : 0 < Fintype.card m := Fintype.card_pos
  exact_mod_cast this.ne'

/-- translation: adding the same vector to every sample does not change the centred data -/
theorem center_translate (X : Matrix m n ℝ) (c : n → ℝ) :
    center (fun i j => X i j + c j) = center X := by
  funext i j
  simp only [center, colMean, Finset.sum_add_distrib, Finset.sum_const, Finset.card_univ, nsmul_eq_mul]
  have h := card_ne_zero' (m := m)
  field_simp; ring

theorem cov_translate (X : Matrix m n ℝ) (c : n → ℝ) :
    cov (fun i j => X i j + c j) = cov X := by
  unfold cov; rw [center_translate]

/-- scaling all features by a constant scales the covariance by its square -/
theorem center_smul (X : Matrix m n ℝ) (a : ℝ) : center (a • X) = a • center X := by
  funext i j
  simp only [center, colMean, Matrix.smul_apply, smul_eq_mul, ← Finset.mul_sum]
  ring

theorem cov_smul (X : Matrix m n ℝ) (a : ℝ) : cov (a • X) = (a * a) • cov X := by
  unfold cov; rw [center_smul, transpose_smul, Matrix.smul_mul, Matrix.mul_smul, smul_smul, smul_smul, smul_smul]
  congr 1; ring

/-- linear change of coordinates: cov(XQ) = Qᵀ cov(X) Q (in particular for orthogonal Q) -/
theorem center_mul (X : Matrix m n ℝ) (Q : Matrix n n ℝ) : center (X * Q) = center X * Q := by
  funext i j
  simp only [center, colMean, Matrix.mul_apply, sub_mul, Finset.sum_sub_distrib]
  congr 1
  rw [Finset.sum_comm, Finset.sum_div]
  apply Finset.sum_congr rfl; intro k _
  rw [← Finset.sum_mul]; ring

theorem cov_mul (X : Matrix m n ℝ) (Q : Matrix n n ℝ) : cov (X * Q) = Qᵀ * cov X * Q := by
  unfold cov
  rw [center_mul, transpose_mul, Matrix.mul_smul, Matrix.smul_mul]
  simp only [Matrix.mul_assoc]

/-- listing the samples in another order does not change the covariance -/
theorem cov_perm (X : Matrix m n ℝ) (σ : Equiv.Perm m) : cov (fun i j => X (σ i) j) = cov X := by
  have hc : center (fun i j => X (σ i) j) = fun i j => center X (σ i) j := by
    funext i j
    simp only [center, colMean]
    rw [Equiv.sum_comp σ (fun i => X i j)]
  unfold cov; rw [hc]
  congr 1
  ext a b
  simp only [Matrix.mul_apply, Matrix.transpose_apply]
  exact Equiv.sum_comp σ (fun i => center X i a * center X i b)
