import Mathlib
open Matrix

/-!
The small `math` axioms of /verif/npvc/theory.py, proved from Mathlib.  Theorem names are the `lean=` names
given in theory.py.  (Matrices are `Matrix k n ℝ`, vectors `n → ℝ`; numpy's `v @ A.T` is `A *ᵥ v`.)
-/

set_option linter.unusedSectionVars false
variable {n k m : Type*} [Fintype n] [Fintype k] [Fintype m]

/-- np.sum(v**2) = v . v -/
theorem vsum_sq_eq_dot (v : n → ℝ) : ∑ i, (v i) ^ 2 = v ⬝ᵥ v := by
  simp [dotProduct, sq]

/-- (A.T).T = A -/
theorem tr_tr (A : Matrix k n ℝ) : Aᵀᵀ = A := Matrix.transpose_transpose A

/-- v @ L.T = L @ v -/
theorem vecMul_transpose (L : Matrix k n ℝ) (v : n → ℝ) : v ᵥ* Lᵀ = L *ᵥ v := Matrix.vecMul_transpose L v

/-- v^T (L^T L) v = (L v) . (L v) -/
theorem quad_form_gram (L : Matrix k n ℝ) (v : n → ℝ) : v ⬝ᵥ ((Lᵀ * L) *ᵥ v) = (L *ᵥ v) ⬝ᵥ (L *ᵥ v) := by
  rw [← Matrix.mulVec_mulVec, Matrix.dotProduct_mulVec, Matrix.vecMul_transpose]

theorem dot_self_nonneg (v : n → ℝ) : 0 ≤ v ⬝ᵥ v := by
  simp only [dotProduct]
  exact Finset.sum_nonneg (fun i _ => mul_self_nonneg (v i))

/-- (L^T L)^T = L^T L -/
theorem gram_transpose (L : Matrix k n ℝ) : (Lᵀ * L)ᵀ = Lᵀ * L := by
  rw [Matrix.transpose_mul, Matrix.transpose_transpose]

/-- L x - L y = L (x - y) -/
theorem mulVec_sub (L : Matrix k n ℝ) (x y : n → ℝ) : L *ᵥ x - L *ᵥ y = L *ᵥ (x - y) := (Matrix.mulVec_sub L x y).symm

/-- 2 * [c] - 1 is +1 or -1 -/
theorem two_mul_indicator_sub_one (c : Prop) [Decidable c] :
    |(2 * (if c then (1 : ℝ) else 0) - 1)| = 1 := by
  by_cases h : c <;> simp [h] <;> norm_num

/-- the mean of a vector of +1 or -1 entries, halved and shifted, is the fraction of +1 entries -/
theorem mean_pm1_eq_frac_pos {N : ℕ} (hN : 0 < N) (v : Fin N → ℝ) (h : ∀ i, v i = 1 ∨ v i = -1) :
    (∑ i, v i) / N / 2 + 1 / 2 = (∑ i, (if v i = 1 then (1 : ℝ) else 0)) / N := by
  have hN' : (N : ℝ) ≠ 0 := by exact_mod_cast hN.ne'
  have key : ∀ i, v i = 2 * (if v i = 1 then (1 : ℝ) else 0) - 1 := by
    intro i
    rcases h i with h1 | h1
    · rw [h1]; norm_num
    · rw [h1]; norm_num
  have : ∑ i, v i = 2 * (∑ i, (if v i = 1 then (1 : ℝ) else 0)) - N := by
    conv_lhs => rw [Finset.sum_congr rfl (fun i _ => key i)]
    rw [Finset.sum_sub_distrib, ← Finset.mul_sum]
    simp
  rw [this]
  field_simp
  ring

/-- max_i |w_i| >= 0 (for a non-empty index set) -/
theorem max_abs_nonneg {N : ℕ} (w : Fin (N + 1) → ℝ) : 0 ≤ Finset.sup' Finset.univ Finset.univ_nonempty (fun i => |w i|) := by
  exact le_trans (abs_nonneg (w 0)) (Finset.le_sup' (fun i => |w i|) (Finset.mem_univ 0))

-- the sign symmetries that are exact in binary64 as well: a - b = -(b - a), (-a)^2 = a^2, a - a = 0
theorem ml_neg_sub (a b : ℝ) : b - a = -(a - b) := (neg_sub a b).symm
theorem ml_neg_sq (a : ℝ) : (-a) ^ 2 = a ^ 2 := neg_sq a
theorem ml_sub_self (a : ℝ) : a - a = 0 := sub_self a

/-- a positive definite matrix has a positive quadratic form on non-zero vectors (ITML: p = v^T A v > 0) -/
theorem posDef_quad_pos {n : Type*} [Fintype n] [DecidableEq n] (A : Matrix n n ℝ) (hA : A.PosDef) (v : n → ℝ) (hv : v ≠ 0) :
    0 < (v ᵥ* A) ⬝ᵥ v := by
  have h := hA.dotProduct_mulVec_pos hv
  simp only [star_trivial] at h
  rwa [Matrix.dotProduct_mulVec] at h

/-- the identity matrix is positive definite -/
theorem posDef_one {n : Type*} [Fintype n] [DecidableEq n] : (1 : Matrix n n ℝ).PosDef := Matrix.PosDef.one
