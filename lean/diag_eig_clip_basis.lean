import Mathlib
open Matrix

variable {n k : Type*} [Fintype n] [Fintype k] [DecidableEq n] [DecidableEq k]

/-- diagonal branch of components_from_metric: L = diag(√d) gives LᵀL = diag d for d ≥ 0 -/
theorem diag_sqrt_gram (d : n → ℝ) (hd : ∀ i, 0 ≤ d i) :
    (diagonal fun i => Real.sqrt (d i))ᵀ * (diagonal fun i => Real.sqrt (d i)) = diagonal d := by
  rw [diagonal_transpose, diagonal_mul_diagonal]
  congr 1; funext i; exact Real.mul_self_sqrt (hd i)

/-- with clipping: L = diag(√max(0,d)) gives LᵀL = diag(max 0 d) -/
theorem diag_sqrt_clip_gram (d : n → ℝ) :
    (diagonal fun i => Real.sqrt (max 0 (d i)))ᵀ * (diagonal fun i => Real.sqrt (max 0 (d i)))
      = diagonal fun i => max 0 (d i) := by
  rw [diagonal_transpose, diagonal_mul_diagonal]
  congr 1; funext i; exact Real.mul_self_sqrt (le_max_left _ _)

/-- eigh fallback: L = diag(s) * Vᵀ gives LᵀL = V * diag(s²) * Vᵀ -/
theorem eig_factor_gram (V : Matrix n n ℝ) (s : n → ℝ) :
    (diagonal s * Vᵀ)ᵀ * (diagonal s * Vᵀ) = V * diagonal (fun i => s i * s i) * Vᵀ := by
  rw [transpose_mul, transpose_transpose, diagonal_transpose, Matrix.mul_assoc, ← Matrix.mul_assoc (diagonal s),
    diagonal_mul_diagonal, Matrix.mul_assoc]

/-- hence with s = √max(0,w): LᵀL = V diag(max 0 w) Vᵀ, which is M itself when w ≥ 0 -/
theorem eig_factor_gram_clip (V : Matrix n n ℝ) (w : n → ℝ) :
    (diagonal (fun i => Real.sqrt (max 0 (w i))) * Vᵀ)ᵀ * (diagonal (fun i => Real.sqrt (max 0 (w i))) * Vᵀ)
      = V * diagonal (fun i => max 0 (w i)) * Vᵀ := by
  rw [eig_factor_gram]
  have h : (fun i => Real.sqrt (max 0 (w i)) * Real.sqrt (max 0 (w i))) = fun i => max 0 (w i) := by
    funext i; exact Real.mul_self_sqrt (le_max_left _ _)
  rw [h]

/-- eigenvalue clipping (MMC PSD projection, LSML floor): V diag(c) Vᵀ is PSD when c ≥ 0 -/
theorem clip_psd (V : Matrix n n ℝ) (c : n → ℝ) (hc : ∀ i, 0 ≤ c i) :
    (V * diagonal c * Vᵀ).PosSemidef := by
  have h : (diagonal c).PosSemidef := Matrix.PosSemidef.diagonal (fun i => hc i)
  have := h.mul_mul_conjTranspose_same V
  simpa [Matrix.conjTranspose_eq_transpose_of_trivial] using this

/-- SCML: M = Bᵀ diag(w) B is PSD for w ≥ 0 -/
theorem basis_comb_psd (B : Matrix k n ℝ) (w : k → ℝ) (hw : ∀ i, 0 ≤ w i) :
    (Bᵀ * diagonal w * B).PosSemidef := by
  have h : (diagonal w).PosSemidef := Matrix.PosSemidef.diagonal (fun i => hw i)
  have := h.conjTranspose_mul_mul_same B
  simpa [Matrix.conjTranspose_eq_transpose_of_trivial] using this

/-- SCML low-rank branch: L = diag(√w) B gives LᵀL = Bᵀ diag(w) B -/
theorem basis_comb_factor (B : Matrix k n ℝ) (w : k → ℝ) (hw : ∀ i, 0 ≤ w i) :
    (diagonal (fun i => Real.sqrt (w i)) * B)ᵀ * (diagonal (fun i => Real.sqrt (w i)) * B)
      = Bᵀ * diagonal w * B := by
  rw [transpose_mul, diagonal_transpose, Matrix.mul_assoc, ← Matrix.mul_assoc (diagonal _) (diagonal _),
    diagonal_mul_diagonal, ← Matrix.mul_assoc]
  have h : (fun i => Real.sqrt (w i) * Real.sqrt (w i)) = w := by
    funext i; exact Real.mul_self_sqrt (hw i)
  rw [h]

/-- Bᵀ diag(w) B is the weighted sum of the rank-one matrices bᵢ bᵢᵀ -/
theorem basis_comb_sum (B : Matrix k n ℝ) (w : k → ℝ) :
    Bᵀ * diagonal w * B = ∑ i, w i • vecMulVec (B i) (B i) := by
  ext a b
  simp [Matrix.mul_apply, Matrix.sum_apply, vecMulVec_apply, diagonal_apply, mul_comm, mul_left_comm]
