import Mathlib
open Matrix

section eig
variable {n : Type*} [Fintype n] [DecidableEq n]

/-- conjugation by an orthogonal matrix multiplies diagonal parts -/
theorem conj_mul_conj (V : Matrix n n ℝ) (hV : Vᵀ * V = 1) (a b : n → ℝ) :
    (V * diagonal a * Vᵀ) * (V * diagonal b * Vᵀ) = V * diagonal (fun i => a i * b i) * Vᵀ := by
  calc (V * diagonal a * Vᵀ) * (V * diagonal b * Vᵀ)
      = V * diagonal a * (Vᵀ * V) * diagonal b * Vᵀ := by simp only [Matrix.mul_assoc]
    _ = V * diagonal (fun i => a i * b i) * Vᵀ := by
        rw [hV, Matrix.mul_one, Matrix.mul_assoc V, diagonal_mul_diagonal]

theorem conj_transpose (V : Matrix n n ℝ) (a : n → ℝ) :
    (V * diagonal a * Vᵀ)ᵀ = V * diagonal a * Vᵀ := by
  rw [transpose_mul, transpose_mul, transpose_transpose, diagonal_transpose, Matrix.mul_assoc]

/-- RCA `_inv_sqrtm`: S = V diag(1/√w) Vᵀ whitens W = V diag(w) Vᵀ : S W Sᵀ = 1, and SᵀS is W's inverse -/
theorem inv_sqrtm_whitens (V : Matrix n n ℝ) (hV : Vᵀ * V = 1) (hV' : V * Vᵀ = 1) (w : n → ℝ)
    (hw : ∀ i, 0 < w i) :
    let S := V * diagonal (fun i => 1 / Real.sqrt (w i)) * Vᵀ
    let W := V * diagonal w * Vᵀ
    S * W * Sᵀ = 1 ∧ W * (Sᵀ * S) = 1 := by
  intro S W
  have hS : Sᵀ = S := conj_transpose V _
  have e1 : ∀ i, 1 / Real.sqrt (w i) * w i * (1 / Real.sqrt (w i)) = 1 := by
    intro i
    have hs : 0 < Real.sqrt (w i) := Real.sqrt_pos.mpr (hw i)
    have : Real.sqrt (w i) * Real.sqrt (w i) = w i := Real.mul_self_sqrt (hw i).le
    field_simp; nlinarith [this]
  constructor
  · rw [hS]; show (V * _ * Vᵀ) * (V * _ * Vᵀ) * (V * _ * Vᵀ) = 1
    rw [conj_mul_conj V hV, conj_mul_conj V hV]
    have : (fun i => 1 / Real.sqrt (w i) * w i * (1 / Real.sqrt (w i))) = fun _ => (1:ℝ) := funext e1
    rw [this, diagonal_one, Matrix.mul_one, hV']
  · rw [hS]; show (V * _ * Vᵀ) * ((V * _ * Vᵀ) * (V * _ * Vᵀ)) = 1
    rw [conj_mul_conj V hV, conj_mul_conj V hV]
    have : (fun i => w i * (1 / Real.sqrt (w i) * (1 / Real.sqrt (w i)))) = fun _ => (1:ℝ) := by
      funext i; have := e1 i; nlinarith [this]
    rw [this, diagonal_one, Matrix.mul_one, hV']

/-- `_pseudo_inverse_from_eig`: P = V diag(w⁺) Vᵀ satisfies the four Penrose equations for X = V diag(w) Vᵀ,
    when w⁺ᵢ = 1/wᵢ on the retained eigenvalues and the discarded ones are zero -/
theorem pinv_from_eig_penrose (V : Matrix n n ℝ) (hV : Vᵀ * V = 1) (w wp : n → ℝ)
    (h : ∀ i, (w i = 0 ∧ wp i = 0) ∨ (w i ≠ 0 ∧ wp i = 1 / w i)) :
    let X := V * diagonal w * Vᵀ
    let P := V * diagonal wp * Vᵀ
    X * P * X = X ∧ P * X * P = P ∧ (X * P)ᵀ = X * P ∧ (P * X)ᵀ = P * X := by
  intro X P
  have e1 : (fun i => w i * wp i * w i) = w := by
    funext i; rcases h i with ⟨h0, h1⟩ | ⟨h0, h1⟩
    · simp [h0]
    · rw [h1]; field_simp
  have e2 : (fun i => wp i * w i * wp i) = wp := by
    funext i; rcases h i with ⟨h0, h1⟩ | ⟨h0, h1⟩
    · simp [h1]
    · rw [h1]; field_simp
  refine ⟨?_, ?_, ?_, ?_⟩
  · show (V * _ * Vᵀ) * (V * _ * Vᵀ) * (V * _ * Vᵀ) = V * _ * Vᵀ
    rw [conj_mul_conj V hV, conj_mul_conj V hV, e1]
  · show (V * _ * Vᵀ) * (V * _ * Vᵀ) * (V * _ * Vᵀ) = V * _ * Vᵀ
    rw [conj_mul_conj V hV, conj_mul_conj V hV, e2]
  · show ((V * _ * Vᵀ) * (V * _ * Vᵀ))ᵀ = (V * _ * Vᵀ) * (V * _ * Vᵀ)
    rw [conj_mul_conj V hV, conj_transpose]
  · show ((V * _ * Vᵀ) * (V * _ * Vᵀ))ᵀ = (V * _ * Vᵀ) * (V * _ * Vᵀ)
    rw [conj_mul_conj V hV, conj_transpose]
end eig
