import Mathlib
open Matrix

variable {m n : Type*} [Fintype m] [Fintype n] [DecidableEq m]

/-- LFDA: the pairwise definition of a weighted scatter matrix equals the matrix form the code accumulates:
    Σᵢⱼ Aᵢⱼ (xᵢ−xⱼ)(xᵢ−xⱼ)ᵀ = 2 (Xᵀ diag(A·1) X − Xᵀ A X)   for symmetric weights A -/
theorem pairwise_scatter (X : Matrix m n ℝ) (A : Matrix m m ℝ) (hA : ∀ i j, A i j = A j i) :
    (∑ i, ∑ j, A i j • vecMulVec (X i - X j) (X i - X j))
      = (2 : ℝ) • (Xᵀ * diagonal (fun i => ∑ j, A i j) * X - Xᵀ * A * X) := by
  ext a b
  simp only [Matrix.sum_apply, Matrix.smul_apply, vecMulVec_apply, Pi.sub_apply, smul_eq_mul,
    Matrix.sub_apply, Matrix.mul_apply, Matrix.transpose_apply, diagonal_apply]
  -- left: expand the product
  have hL : ∀ i j, A i j * ((X i a - X j a) * (X i b - X j b))
      = A i j * (X i a * X i b) - A i j * (X i a * X j b) - A i j * (X j a * X i b) + A i j * (X j a * X j b) := by
    intro i j; ring
  simp only [hL, Finset.sum_add_distrib, Finset.sum_sub_distrib]
  -- the fourth term equals the first (swap i j, symmetry); the third equals the second
  have h4 : ∑ i, ∑ j, A i j * (X j a * X j b) = ∑ i, ∑ j, A i j * (X i a * X i b) := by
    rw [Finset.sum_comm]
    apply Finset.sum_congr rfl; intro i _; apply Finset.sum_congr rfl; intro j _; rw [hA j i]
  have h3 : ∑ i, ∑ j, A i j * (X j a * X i b) = ∑ i, ∑ j, A i j * (X i a * X j b) := by
    rw [Finset.sum_comm]
    apply Finset.sum_congr rfl; intro i _; apply Finset.sum_congr rfl; intro j _; rw [hA j i]
  rw [h4, h3]
  -- right: collapse the diagonal
  have hR1 : ∑ x, (∑ x_1, X x_1 a * if x_1 = x then ∑ j, A x_1 j else 0) * X x b
      = ∑ i, ∑ j, A i j * (X i a * X i b) := by
    apply Finset.sum_congr rfl; intro i _
    rw [Finset.sum_eq_single i]
    · simp only [if_true]; rw [Finset.mul_sum, Finset.sum_mul]
      apply Finset.sum_congr rfl; intro j _; ring
    · intro k _ hk; simp [hk]
    · intro h; exact absurd (Finset.mem_univ i) h
  have hR2 : ∑ x, (∑ j, X j a * A j x) * X x b = ∑ i, ∑ j, A i j * (X i a * X j b) := by
    simp only [Finset.sum_mul]
    rw [Finset.sum_comm]
    apply Finset.sum_congr rfl; intro i _; apply Finset.sum_congr rfl; intro j _; ring
  rw [hR1, hR2]; ring
