#!/usr/bin/env python3
"""Lean back end: `check.py run` re-checks every lemma file with lean 4 + Mathlib (thorough tier) and rewrites VERIFIED.json;
`check.py status` (quick tier) only compares file hashes with VERIFIED.json.  The mapping SMT axiom -> Lean theorem is by name
(theory.py `lean=`); names starting with `Real.`/`Matrix.` are Mathlib's own theorems."""
import concurrent.futures as cf
import hashlib
import json
import os
import re
import subprocess
import sys
import time

HERE = os.path.dirname(os.path.abspath(__file__))
FILES = sorted(f for f in os.listdir(HERE) if f.endswith('.lean'))


def sha(f):
  return hashlib.sha256(open(os.path.join(HERE, f), 'rb').read()).hexdigest()


def theorems(f):
  src = open(os.path.join(HERE, f)).read()
  return re.findall(r'^(?:theorem|lemma)\s+([A-Za-z_0-9\'.]+)', src, re.M)


def check_one(f):
  t0 = time.time()
  out = subprocess.run(['lean', f], cwd=HERE, capture_output=True, text=True, timeout=1800)
  txt = out.stdout + out.stderr
  ok = out.returncode == 0 and 'error' not in txt and 'sorry' not in open(os.path.join(HERE, f)).read()
  return f, ok, round(time.time() - t0, 1), [l for l in txt.splitlines() if 'error' in l][:5]


def run():
  res = {}
  with cf.ThreadPoolExecutor(4) as ex:
    for f, ok, secs, errs in ex.map(check_one, FILES):
      res[f] = dict(sha256=sha(f), accepted=ok, seconds=secs, errors=errs, theorems=theorems(f))
  json.dump(dict(lean=subprocess.run(['lean', '--version'], capture_output=True, text=True).stdout.strip(), files=res),
            open(os.path.join(HERE, 'VERIFIED.json'), 'w'), indent=1)
  return res


def status():
  """-> (set of theorem names whose file hash matches an accepted run, list of problems)"""
  p = os.path.join(HERE, 'VERIFIED.json')
  if not os.path.exists(p):
    return set(), ['lean/VERIFIED.json missing: lemmas never checked']
  v = json.load(open(p))
  names, problems = set(), []
  for f in FILES:
    e = v['files'].get(f)
    if e is None or e['sha256'] != sha(f):
      problems.append('%s changed since the last Lean run' % f)
    elif not e['accepted']:
      problems.append('%s was rejected by Lean' % f)
    else:
      names |= set(e['theorems'])
  return names, problems


if __name__ == '__main__':
  if len(sys.argv) > 1 and sys.argv[1] == 'run':
    r = run()
    bad = [f for f, e in r.items() if not e['accepted']]
    for f, e in sorted(r.items()):
      print('%-34s %s %5.1fs %d theorems' % (f, 'accepted' if e['accepted'] else 'REJECTED', e['seconds'], len(e['theorems'])))
    sys.exit(1 if bad else 0)
  names, problems = status()
  print(len(names), 'theorems verified;', problems or 'no problems')
