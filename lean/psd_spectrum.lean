import Mathlib
open Matrix

variable {n : Type*} [Fintype n] [DecidableEq n]

/-- SMT axiom `max_floor_id`: flooring a vector at `s` changes nothing when no entry is below `s` -/
theorem max_floor_id (v : n → ℝ) (s : ℝ) (h : ∀ i, ¬ v i < s) : (fun i => max s (v i)) = v := by
  funext i
  exact max_eq_right (not_lt.mp (h i))

/-- SMT axiom `psd_diag_nonneg`: the diagonal of a positive semi-definite matrix is non-negative
    (so the diagonal shortcut of components_from_metric clips nothing on a PSD input) -/
theorem psd_diag_nonneg (A : Matrix n n ℝ) (hA : A.PosSemidef) (i : n) : 0 ≤ A i i :=
  hA.diag_nonneg

/-- SMT axiom `psd_eigvals_nonneg`: the eigenvalues of a (symmetric) positive semi-definite matrix are non-negative
    (so the eigh fallback of components_from_metric clips nothing on a PSD input) -/
theorem psd_eigvals_nonneg (A : Matrix n n ℝ) (hA : A.PosSemidef) (i : n) : 0 ≤ hA.1.eigenvalues i :=
  hA.eigenvalues_nonneg i
