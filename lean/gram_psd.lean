import Mathlib

open Matrix

variable {n k : Type*} [Fintype n] [Fintype k] [DecidableEq n] [DecidableEq k]

-- M = Lᵀ L is PSD
theorem gram_psd (L : Matrix k n ℝ) : (Lᵀ * L).PosSemidef := by
  have := Matrix.posSemidef_conjTranspose_mul_self L
  simpa [Matrix.conjTranspose_eq_transpose_of_trivial] using this

-- x M xᵀ = ‖L x‖²  (as dot products)
theorem quad_form (L : Matrix k n ℝ) (x : n → ℝ) :
    x ⬝ᵥ ((Lᵀ * L) *ᵥ x) = (L *ᵥ x) ⬝ᵥ (L *ᵥ x) := by
  rw [← Matrix.mulVec_mulVec, Matrix.dotProduct_mulVec, Matrix.vecMul_transpose]

example (a b : EuclideanSpace ℝ (Fin 3)) : ‖a + b‖ ≤ ‖a‖ + ‖b‖ := norm_add_le a b
