import Mathlib
open Matrix

variable {n k : Type*} [Fintype n] [Fintype k]

/-- the learned distance, as the code computes it: sqrt of the sum of squares of L(x - y) -/
noncomputable def mdist (L : Matrix k n ℝ) (x y : n → ℝ) : ℝ :=
  Real.sqrt ((L *ᵥ (x - y)) ⬝ᵥ (L *ᵥ (x - y)))

theorem sqrt_dot_self_eq_norm (v : k → ℝ) :
    Real.sqrt (v ⬝ᵥ v) = ‖(WithLp.toLp 2 v : EuclideanSpace ℝ k)‖ := by
  rw [EuclideanSpace.norm_eq]
  congr 1
  simp [dotProduct, sq, Real.norm_eq_abs]

theorem mdist_nonneg (L : Matrix k n ℝ) (x y : n → ℝ) : 0 ≤ mdist L x y := Real.sqrt_nonneg _

theorem mdist_self (L : Matrix k n ℝ) (x : n → ℝ) : mdist L x x = 0 := by
  simp [mdist]

theorem mdist_comm (L : Matrix k n ℝ) (x y : n → ℝ) : mdist L x y = mdist L y x := by
  unfold mdist
  have : L *ᵥ (x - y) = - (L *ᵥ (y - x)) := by rw [← Matrix.mulVec_neg]; congr 1; abel
  rw [this]; simp

theorem mdist_triangle (L : Matrix k n ℝ) (x y z : n → ℝ) :
    mdist L x z ≤ mdist L x y + mdist L y z := by
  unfold mdist
  rw [sqrt_dot_self_eq_norm, sqrt_dot_self_eq_norm, sqrt_dot_self_eq_norm]
  have h : L *ᵥ (x - z) = L *ᵥ (x - y) + L *ᵥ (y - z) := by
    rw [← Matrix.mulVec_add]; congr 1; abel
  rw [h, WithLp.toLp_add]
  exact norm_add_le (WithLp.toLp 2 (L *ᵥ (x - y)) : EuclideanSpace ℝ k) (WithLp.toLp 2 (L *ᵥ (y - z)))
