import Mathlib
open Matrix

variable {n : Type*} [Fintype n] [DecidableEq n]

/-- symmetry of the bilinear form of a symmetric real matrix -/
theorem dot_mulVec_comm (A : Matrix n n ℝ) (hA : Aᵀ = A) (x v : n → ℝ) :
    x ⬝ᵥ (A *ᵥ v) = v ⬝ᵥ (A *ᵥ x) := by
  rw [Matrix.dotProduct_mulVec, ← Matrix.mulVec_transpose, hA, dotProduct_comm]

/-- Cauchy–Schwarz for a positive semidefinite symmetric real matrix -/
theorem cs_psd (A : Matrix n n ℝ) (hA : A.PosSemidef) (x v : n → ℝ) :
    (x ⬝ᵥ (A *ᵥ v)) ^ 2 ≤ (x ⬝ᵥ (A *ᵥ x)) * (v ⬝ᵥ (A *ᵥ v)) := by
  have hsym : Aᵀ = A := by
    have := hA.isHermitian
    simpa [Matrix.IsHermitian, Matrix.conjTranspose_eq_transpose_of_trivial] using this
  have hq : ∀ t : ℝ, 0 ≤ (v ⬝ᵥ (A *ᵥ v)) * (t * t) + (2 * (x ⬝ᵥ (A *ᵥ v))) * t + x ⬝ᵥ (A *ᵥ x) := by
    intro t
    have h := hA.dotProduct_mulVec_nonneg (x + t • v)
    simp only [star_trivial] at h
    have e : (x + t • v) ⬝ᵥ (A *ᵥ (x + t • v))
        = (v ⬝ᵥ (A *ᵥ v)) * (t * t) + (2 * (x ⬝ᵥ (A *ᵥ v))) * t + x ⬝ᵥ (A *ᵥ x) := by
      rw [Matrix.mulVec_add, Matrix.mulVec_smul]
      simp only [add_dotProduct, dotProduct_add, smul_dotProduct, dotProduct_smul, smul_eq_mul]
      rw [dot_mulVec_comm A hsym v x]
      ring
    rw [e] at h; exact h
  have hd := discrim_le_zero hq
  unfold discrim at hd
  nlinarith [hd]

/-- ITML projection step: a rank-one update `A + β (Av)(Av)ᵀ` of a positive definite `A`
    stays positive definite as soon as `1 + β vᵀAv > 0`. -/
theorem rank_one_posDef (A : Matrix n n ℝ) (hA : A.PosDef) (v : n → ℝ) (β : ℝ)
    (hβ : 0 < 1 + β * (v ⬝ᵥ (A *ᵥ v))) :
    (A + β • vecMulVec (A *ᵥ v) (A *ᵥ v)).PosDef := by
  have hsym : Aᵀ = A := by
    have := hA.isHermitian
    simpa [Matrix.IsHermitian, Matrix.conjTranspose_eq_transpose_of_trivial] using this
  refine Matrix.PosDef.of_dotProduct_mulVec_pos ?_ ?_
  · -- symmetric
    have h1 : (vecMulVec (A *ᵥ v) (A *ᵥ v))ᵀ = vecMulVec (A *ᵥ v) (A *ᵥ v) := by
      ext i j; simp [vecMulVec_apply, mul_comm]
    simp [Matrix.IsHermitian, Matrix.conjTranspose_eq_transpose_of_trivial, hsym, h1,
      Matrix.transpose_add, Matrix.transpose_smul]
  · intro x hx
    simp only [star_trivial]
    have hpos := hA.dotProduct_mulVec_pos hx
    simp only [star_trivial] at hpos
    have hcs := cs_psd A hA.posSemidef x v
    have hvv := hA.posSemidef.dotProduct_mulVec_nonneg v
    simp only [star_trivial] at hvv
    have e : x ⬝ᵥ ((A + β • vecMulVec (A *ᵥ v) (A *ᵥ v)) *ᵥ x)
        = x ⬝ᵥ (A *ᵥ x) + β * (x ⬝ᵥ (A *ᵥ v)) ^ 2 := by
      rw [Matrix.add_mulVec, Matrix.smul_mulVec, dotProduct_add, dotProduct_smul,
        Matrix.vecMulVec_mulVec, dotProduct_smul, smul_eq_mul, MulOpposite.smul_eq_mul_unop,
        MulOpposite.unop_op]
      have : (A *ᵥ v) ⬝ᵥ x = x ⬝ᵥ (A *ᵥ v) := dotProduct_comm _ _
      rw [this]; ring
    rw [e]
    by_cases hb : 0 ≤ β
    · have : 0 ≤ β * (x ⬝ᵥ (A *ᵥ v)) ^ 2 := mul_nonneg hb (sq_nonneg _)
      linarith
    · push Not at hb
      nlinarith [mul_le_mul_of_nonpos_left hcs hb.le, mul_pos hpos hβ]
