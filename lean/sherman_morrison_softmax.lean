import Mathlib
open Matrix

variable {n : Type*} [Fintype n] [DecidableEq n]

/-- Sherman–Morrison form used by ITML: if `Ainv` is a two-sided inverse of `A`, `u = A v`,
    `p = vᵀ A v` and `1 + β p ≠ 0`, then `Ainv − (β/(1+βp)) v vᵀ` is a right inverse of `A + β u uᵀ`. -/
theorem itml_inverse_update (A Ainv : Matrix n n ℝ) (hsym : Aᵀ = A) (h1 : A * Ainv = 1)
    (v : n → ℝ) (β : ℝ) (hβ : 1 + β * (v ⬝ᵥ (A *ᵥ v)) ≠ 0) :
    (A + β • vecMulVec (A *ᵥ v) (A *ᵥ v)) *
      (Ainv - (β / (1 + β * (v ⬝ᵥ (A *ᵥ v)))) • vecMulVec v v) = 1 := by
  set p := v ⬝ᵥ (A *ᵥ v) with hp
  have hAv : vecMulVec (A *ᵥ v) (A *ᵥ v) * Ainv = vecMulVec (A *ᵥ v) v := by
    -- (Av)(Av)ᵀ A⁻¹ = (Av) vᵀ A A⁻¹ = (Av) vᵀ
    have : (A *ᵥ v) ᵥ* Ainv = v := by
      have h2 : (A *ᵥ v) = v ᵥ* A := by
        rw [← Matrix.mulVec_transpose, hsym]
      rw [h2, Matrix.vecMul_vecMul, h1, Matrix.vecMul_one]
    rw [Matrix.vecMulVec_mul, this]
  have hAvv : A * vecMulVec v v = vecMulVec (A *ᵥ v) v := by
    rw [Matrix.mul_vecMulVec]
  have hquad : vecMulVec (A *ᵥ v) (A *ᵥ v) * vecMulVec v v = p • vecMulVec (A *ᵥ v) v := by
    rw [Matrix.vecMulVec_mul_vecMulVec]
    have : (A *ᵥ v) ⬝ᵥ v = p := by rw [hp, dotProduct_comm]
    rw [this]
    ext i j; simp [vecMulVec_apply]; ring
  rw [Matrix.add_mul, Matrix.mul_sub, Matrix.mul_sub, h1, Matrix.smul_mul, Matrix.mul_smul, Matrix.smul_mul,
    Matrix.mul_smul, hAv, hAvv, hquad]
  have key : -(β / (1 + β * p)) + β - β * (β / (1 + β * p)) * p = 0 := by
    field_simp; ring
  have hcomb : (1 : Matrix n n ℝ) - (β / (1 + β * p)) • vecMulVec (A *ᵥ v) v +
      (β • vecMulVec (A *ᵥ v) v - β • (β / (1 + β * p)) • p • vecMulVec (A *ᵥ v) v)
      = 1 + (-(β / (1 + β * p)) + β - β * (β / (1 + β * p)) * p) • vecMulVec (A *ᵥ v) v := by
    ext i j
    simp only [Matrix.add_apply, Matrix.sub_apply, Matrix.smul_apply, smul_eq_mul]
    ring
  rw [hcomb, key, zero_smul, add_zero]

/-- softmax as the code writes it: exp(x_j − log Σ exp x) = exp x_j / Σ exp x -/
theorem softmax_logsumexp {ι : Type*} [Fintype ι] [Nonempty ι] (x : ι → ℝ) (j : ι) :
    Real.exp (x j - Real.log (∑ i, Real.exp (x i))) = Real.exp (x j) / ∑ i, Real.exp (x i) := by
  have hpos : 0 < ∑ i, Real.exp (x i) :=
    Finset.sum_pos (fun i _ => Real.exp_pos _) Finset.univ_nonempty
  rw [Real.exp_sub, Real.exp_log hpos]
