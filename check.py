#!/verif/.venv/bin/python
"""./verif.sh check <Cxx> [--tier quick|thorough]

Exit 0 held / 1 violation (line `VIOLATION property=<id> replay=<path>`) / 2 undecided / 3 tool error.
Rebuilds everything from /repo's current working tree: the source is re-parsed, obligations regenerated and
discharged on every run.  Evidence is written to evidence/<id>.json.
"""
import argparse
import importlib
import json
import os
import sys
import time
import traceback

HERE = os.path.dirname(os.path.abspath(__file__))
sys.path.insert(0, HERE)
os.environ.setdefault('NPVC_SCRATCH', os.path.join(HERE, 'scratch'))
os.makedirs(os.environ['NPVC_SCRATCH'], exist_ok=True)

from npvc import engine, smt, theory          # noqa
from npvc.source import Program                # noqa


def load_known():
  with open(os.path.join(HERE, 'known_findings.json')) as f:
    return json.load(f)


def match_known(known, prop, clause, signature):
  """a finding is identified by property + obligation (fnmatch pattern) + a regex over the witness signature
  (call site / entry case / failing input); anything else of the same property is still reported"""
  import fnmatch
  import re
  for k in known.get('known', []):
    props = k['property'] if isinstance(k['property'], list) else [k['property']]
    if prop not in props or not re.fullmatch(k['obligation_regex'], clause):
      continue
    if re.search(k['signature_regex'], signature or ''):
      return k
  return None


class StandinProxy:
  """the stand-in runs in a fresh interpreter: numeric code is slow next to the verifier's large heap, and a crash of the
  stand-in must not take the check down"""
  def __init__(self, prop):
    self.prop = prop

  def _call(self, *args, timeout=3000):
    import subprocess
    out = subprocess.run([sys.executable, os.path.join(HERE, 'standins', 'runner.py')] + [str(a) for a in args],
                         capture_output=True, text=True, timeout=timeout, cwd=HERE)
    if '@@RESULT@@' not in out.stdout:
      raise RuntimeError('stand-in %s failed:\n%s' % (self.prop, (out.stderr or out.stdout)[-3000:]))
    return json.loads(out.stdout.split('@@RESULT@@')[-1])

  def run(self, tier, seed):
    return self._call('run', self.prop, tier, seed)

  def replay_clause(self, cid, fail, seed):
    return self._call('replay', self.prop, 'quick', seed, cid, json.dumps(fail, default=str), timeout=900)


def lean_status(ax, lean_names):
  if ax.kind != 'math':
    return ' (assumed %s)' % ('numpy semantics, conformance-sampled' if ax.kind == 'lib' else 'definition of a spec function')
  if not ax.lean:
    return ' (math axiom, UNPROVED: no Lean theorem)'
  if ax.lean.startswith(('Real.', 'Matrix.')):
    return ' (Mathlib theorem %s)' % ax.lean
  if ax.lean in lean_names:
    return ' (Lean theorem %s, accepted)' % ax.lean
  if ' ' in ax.lean:
    return ' (%s)' % ax.lean
  return ' (math axiom, UNPROVED: Lean theorem %s not found in lean/VERIFIED.json)' % ax.lean


def write_replay(prop, name, payload):
  d = os.path.join(HERE, 'replays')
  os.makedirs(d, exist_ok=True)
  path = os.path.join(d, '%s_%s.json' % (prop, name.replace('/', '_').replace(':', '.').replace('[', '(').replace(']', ')')[:120]))
  with open(path, 'w') as f:
    json.dump(payload, f, indent=1, default=str)
  return path


def main():
  ap = argparse.ArgumentParser()
  ap.add_argument('prop')
  ap.add_argument('--tier', default=os.environ.get('VERIF_TIER', 'quick'))
  ap.add_argument('--jobs', type=int, default=16)
  ap.add_argument('--verbose', '-v', action='store_true')
  ns = ap.parse_args()
  prop, tier = ns.prop, ns.tier
  if tier not in ('quick', 'thorough'):
    tier = 'quick'
  seed = int(os.environ.get('VERIF_SEED', '0') or 0)
  t0 = time.time()
  import contracts as C
  units = C.UNITS.get(prop, [])
  known = load_known()
  bpath = os.path.join(HERE, 'baseline', prop + '.json')
  baseline = set(json.load(open(bpath))['discharged']) if os.path.exists(bpath) else set()
  prog = Program()
  known_obls = 0
  replay_cache = {}
  violations = []          # (clause, payload)
  known_hits = []
  undecided = []
  errors = []

  # ---- Lean back end for the mathematical axioms -----------------------------------------------------
  sys.path.insert(0, os.path.join(HERE, 'lean'))
  import check as leancheck
  lean_note = ''
  if tier == 'thorough':
    try:
      r = leancheck.run()
      bad = [f for f, e in r.items() if not e['accepted']]
      if bad:
        print('ERROR: Lean rejected %s' % bad)
        return 3
      lean_note = 'Lean re-checked %d lemma files in this run' % len(r)
    except Exception as e:
      lean_note = 'Lean run failed: %s' % e
  lean_names, lean_problems = leancheck.status()
  if not lean_note:
    lean_note = 'quick tier: Lean not re-run; lemma file hashes compared with lean/VERIFIED.json (%s)' % ('match' if not lean_problems else '; '.join(lean_problems))

  # ---- conformance sampling of the axioms against the installed numpy (thorough tier) -------------------------
  conf = None
  if tier == 'thorough':
    from npvc import conformance
    import warnings as _w
    with _w.catch_warnings():
      _w.simplefilter('ignore')
      rep = conformance.run(seed, 40)
    badax = sorted(k for k, v in rep.items() if v['failures'])
    conf = dict(axioms=len(rep), sampled=sum(1 for v in rep.values() if v['sampled']), instances=sum(v['sampled'] for v in rep.values()),
                failing_axioms=badax, not_sampled=sorted(k for k, v in rep.items() if not v['sampled']))
    if badax:
      print('ERROR: axioms contradicted by the installed numpy: %s' % badax)
      return 3

  # ---- guards --------------------------------------------------------------------------------------
  if not smt.canary():
    print('ERROR: axiom set is inconsistent (proves False)')
    return 3

  # ---- deductive part ------------------------------------------------------------------------------
  results = engine.run_units(units, tier, ns.jobs) if units else []
  # modular closure: a caller was checked against its callees' CONTRACTS -- the property rests on them, so the callees' bodies are
  # checked against those contracts in the same run (transitively), whichever property the callee contract was first written for
  from npvc.contracts import REGISTRY as _REG
  done_targets = {u[1] for u in units if u[0] == 'contract'}
  closure_units = []
  for _round in range(6):
    used = {c for u in results for c in (u.get('report') or {}).get('used_contracts', [])}
    # boundary: the input-validation layer (check_input and below) is the subject of C05 / C06 (and part of C03 / C17); the other
    # properties take validated input as their starting point, so the closure stops at _prepare_inputs
    more = sorted(t for t in used if t in _REG and t not in done_targets
                  and not (t.startswith(('_util:check_', '_util:preprocess_', '_util:make_error_input')) and t != '_util:_check_sdp_from_eigen'
                           and t != '_util:_check_n_components'))
    if not more:
      break
    new_units = [('contract', t) for t in more]
    done_targets |= set(more)
    closure_units += new_units
    results += engine.run_units(new_units, tier, ns.jobs)
  # ---- sidecar guard: every loop invariant / ghost written for this property must have bound to a loop of the current tree ----------
  from contracts import loops as _loops
  SIDE_PROP = {'contracts.c11_itml': 'C11', 'contracts.c14_mmc': 'C14', 'contracts.c15_scml': 'C15'}
  used_side = {tuple(k) if not isinstance(k, tuple) else k for u in results for k in (u.get('report') or {}).get('sidecars_used', [])}
  used_side = {(k[0], tuple(k[1]) if isinstance(k[1], list) else k[1]) for k in used_side}
  for (starget, sord), sent in sorted(_loops.INVARIANTS.items(), key=str):
    owner = SIDE_PROP.get(sent.get('module'))
    if owner is None and sent.get('module') == 'contracts.fits':
      owner = 'C09' if starget.startswith('lfda:') else 'C10' if starget.startswith('lmnn:') else None
    if owner == prop and (starget, sord) not in used_side:
      undecided.append(('%s/sidecar-invariant[%s]' % (starget, sent.get('over')),
                        'the loop invariant written for loop `%s` of %s did not bind to any loop of the current tree (function renamed, loop removed or '
                        'its iteration expression changed): the value-level clauses that rest on it are not decided' % (sent.get('over'), starget)))
  clauses = engine.aggregate(results)
  solver_seconds = sum(o['seconds'] for u in results for o in u['obligations'])
  n_obl = sum(len(u['obligations']) for u in results)
  n_dis = sum(1 for u in results for o in u['obligations'] if o['status'] == 'discharged')
  for u in results:
    if u['error']:
      errors.append((u['unit'], u['error']))
    if u['undecided']:
      undecided.append((u['unit'], u['undecided']))
    if not u['error'] and not u['undecided'] and not u['obligations']:
      undecided.append((u['unit'], 'unit generated zero obligations (vacuity guard)'))
  standin = None
  mod = None
  if os.path.exists(os.path.join(HERE, 'standins', prop.lower() + '.py')):
    mod = StandinProxy(prop)
  for cid, c in sorted(clauses.items()):
    if c['status'] == 'discharged':
      continue
    fail = c['fails'][0]
    sig = ' | '.join(str(f.get('info', {}).get('info') or f.get('info', {}).get('where') or '') for f in c['fails'])
    payload = dict(property=prop, obligation=cid, status=c['status'], solver_output=fail, tree=prog.tree_hash(),
                   failing_input=None)
    k = match_known(known, prop, cid, str(sig))
    if k is not None:
      known_hits.append((k, cid))
      known_obls += len(c['fails'])
      continue
    # replay: ask the stand-in harness for a concrete failing input of this clause on the REAL code
    rep = None
    if mod is not None and hasattr(mod, 'replay_clause'):
      rkey = cid.split('[')[0] + '/' + cid.split('/')[-1]
      if rkey in replay_cache:
        rep = replay_cache[rkey]
      else:
        try:
          rep = mod.replay_clause(cid, fail, seed)
        except Exception:
          rep = dict(error=traceback.format_exc())
        replay_cache[rkey] = rep
    if rep and rep.get('failing_input') is not None:
      payload['failing_input'] = rep['failing_input']
      payload['observed'] = rep.get('observed')
    elif rep:
      payload['replay_note'] = rep

    if payload['failing_input'] is None and any((f.get('info') or {}).get('pattern_mismatch') for f in c['fails']):
      # the clause recognises the term / the callee of a documented formula; an unrecognised spelling is not a refutation
      # (whatever the solver says about the literal `False` it was given): undecided unless a failing input exists
      undecided.append((cid, 'the term built from the body is not one of the recognised forms of the documented formula (%s) and no failing input was found'
                        % next((f['info']['pattern_mismatch'] for f in c['fails'] if (f.get('info') or {}).get('pattern_mismatch')), '')))
      continue
    if c['status'] == 'unknown' and payload['failing_input'] is None:
      if cid in baseline:
        # an obligation that is discharged on the unchanged tree and no longer is: reported as the violation, with the
        # verifier's output in the replay file (no counterexample available)
        payload['note'] = 'obligation is discharged on the unchanged tree (baseline/%s.json) and is not dischargeable on this tree' % prop
        violations.append((cid, payload))
        continue
      unit_prefix = cid.split('/')[0] + '/'
      if '/no-undeclared-exit.' in cid and any(b.startswith(unit_prefix) for b in baseline):
        # the executor reached, on a path it found feasible, an exit with an exception the contract does not declare.  On the unchanged tree this
        # unit was decided and had no such exit (its exception frame was closed); the exit is new and the solver cannot show the path
        # infeasible: reported like an obligation that was discharged on the unchanged tree and no longer is
        payload['note'] = ('the exception frame of this unit is closed on the unchanged tree (baseline/%s.json lists its obligations and no such exit); '
                           'this exit is new and its path is not shown infeasible' % prop)
        violations.append((cid, payload))
        continue
      undecided.append((cid, 'solver returned unknown (%s) and no failing input was found' % fail.get('reason')))
      continue
    violations.append((cid, payload))

  # ---- bounded stand-in (run-time contracts on the real code; labelled bounded, never counted as proved) ----
  if mod is not None and hasattr(mod, 'run'):
    try:
      standin = mod.run(tier, seed)
    except Exception:
      errors.append(('standin', traceback.format_exc()))
      standin = None
    if standin:
      for v in standin.get('violations', []):
        k = match_known(known, prop, v['clause'], v.get('signature', ''))
        if k is not None:
          known_hits.append((k, v['clause']))
        else:
          violations.append((v['clause'], dict(property=prop, obligation=v['clause'], status='runtime-contract-failed',
                                               failing_input=v.get('input'), observed=v.get('observed'), bounded=True,
                                               tree=prog.tree_hash())))

  # a failing input found by the stand-in on the real code serves as the replayed witness of deductive violations that had none
  if standin and standin.get('violations'):
    sv_ = [v for v in standin['violations'] if not match_known(known, prop, v['clause'], v.get('signature', ''))]
    if sv_:
      for cid, payload in violations:
        if payload.get('failing_input') is None and not payload.get('bounded'):
          payload['failing_input'] = sv_[0].get('input')
          payload['observed'] = sv_[0].get('observed')
          payload['failing_input_source'] = 'bounded stand-in clause %s (run on the real code of this tree)' % sv_[0]['clause']

  # ---- report ---------------------------------------------------------------------------------------
  seen_known = set()
  for k, cid in known_hits:
    key = (prop, k['id'])
    if key in seen_known:
      continue
    seen_known.add(key)
    print('KNOWN-FINDING: property=%s %s -- %s' % (prop, k['id'], k['what']))
  vio_lines = []
  seen = set()
  for cid, payload in violations:
    if cid in seen:
      continue
    seen.add(cid)
    path = write_replay(prop, cid, payload)
    tail = '' if payload.get('failing_input') is not None else ' no-failing-input-found'
    vio_lines.append('VIOLATION property=%s replay=%s obligation=%s%s' % (prop, path, cid, tail))
  for l in vio_lines:
    print(l)
  for name, why in undecided:
    print('UNDECIDED obligation=%s -- %s' % (name, why))
  for name, tb in errors:
    print('ERROR in %s:\n%s' % (name, tb))

  # ---- evidence --------------------------------------------------------------------------------------
  from contracts import manifest_meta
  meta = manifest_meta.META.get(prop, {})
  level = meta.get('level', 'other')
  funcs = sorted({u['report'].get('target') for u in results if u.get('report', {}).get('target')})
  assumed = sorted({e for u in results for e in u.get('report', {}).get('externals', [])})
  math_ax = sorted({a for u in results for o in u['obligations'] for a in (o.get('axioms') or [])})
  ax_by_name = {a.name: a for a in theory.AXIOMS}
  samples = []
  for u in results[:40]:
    for o in u['obligations'][:2]:
      samples.append(dict(obligation=o['id'], kind=o['kind'], status=o['status'], backend=o['backend'], seconds=o['seconds']))
  samples = samples[:25]
  cov = dict(
      obligations=n_obl - known_obls, discharged=n_dis,
      obligations_matching_known_findings=known_obls,
      clauses=len(clauses), clauses_discharged=sum(1 for c in clauses.values() if c['status'] == 'discharged'),
      slowest_obligations=[dict(id=o['id'], seconds=o['seconds'], backend=o.get('backend')) for o in sorted((o for u in results for o in u['obligations']), key=lambda o: -o['seconds'])[:8]],
      units=len(units) + len(closure_units), units_of_the_property=len(units), callee_contract_units_checked_by_closure=[u[1] for u in closure_units], units_undecided=len([u for u in results if u['undecided']]),
      checker_cmd='./verif.sh check %s --tier %s' % (prop, tier),
      backends=dict(z3=n_obl, cvc5_crosschecked=sum(1 for u in results for o in u['obligations'] if o.get('cvc5') == 'unsat'),
                    cvc5_disagreements=[o['id'] for u in results for o in u['obligations'] if o.get('cvc5') in ('sat',)]),
      solver_seconds=round(solver_seconds, 3),
      functions_under_contract=funcs,
      callee_contracts_used=sorted({c for u in results for c in u.get('report', {}).get('used_contracts', [])}),
      inlined_helpers=sorted({c for u in results for c in u.get('report', {}).get('inlined', [])}),
      frontend_dropped=sorted({d for u in results for d in u.get('report', {}).get('dropped', [])}),
      trusted_base=['npvc encoder (ast -> z3), see DESIGN.md 1.2', 'z3 %s' % __import__('z3').get_version_string(),
                    'A-real: floats as mathematical reals', 'A-int64: numpy integers as mathematical integers',
                    'partial correctness only (termination not proved)'] +
                   ['assumed contract on dependency: ' + e for e in assumed] +
                   ['axiom[%s]: %s%s' % (ax_by_name[a].kind, a, lean_status(ax_by_name[a], lean_names))
                    for a in math_ax if a in ax_by_name] + ['lean: ' + lean_note],
      unproved_math_axioms=sorted(a for a in math_ax if a in ax_by_name and ax_by_name[a].kind == 'math' and
                                  'UNPROVED' in lean_status(ax_by_name[a], lean_names)),
      samples=samples or [dict(note='no deductive unit for this property in this tier')],
      known_findings_matched=sorted({k['id'] for k, _ in known_hits}),
      tree_hash=prog.tree_hash(),
      explanation=meta.get('explanation', ''),
      axiom_conformance=conf or 'thorough tier only',
  )
  if standin:
    cov['bounded_standin'] = dict(label='bounded -- not proved', **{k: v for k, v in standin.items() if k != 'violations'})
    cov['evaluations'] = standin.get('cases', 0)
    cov['distinct_nontrivial'] = standin.get('distinct_nontrivial', 0)
    cov['rule'] = standin.get('rule', '')
  ev = dict(property_id=prop, tier=tier, seed=seed, level=level, coverage=cov,
            assumptions=meta.get('assumptions', []), wall_s=round(time.time() - t0, 2),
            violations=len(vio_lines))
  os.makedirs(os.path.join(HERE, 'evidence'), exist_ok=True)
  with open(os.path.join(HERE, 'evidence', prop + '.json'), 'w') as f:
    json.dump(ev, f, indent=1, default=str)
  if os.environ.get('VERIF_WRITE_BASELINE') == '1':
    os.makedirs(os.path.join(HERE, 'baseline'), exist_ok=True)
    with open(bpath, 'w') as f:
      json.dump(dict(property=prop, tree=prog.tree_hash(), discharged=sorted(cid for cid, c in clauses.items() if c['status'] == 'discharged')), f, indent=0)
  if ns.verbose:
    for cid, c in sorted(clauses.items()):
      print('  %-11s %-90s paths=%d %.3fs' % (c['status'], cid, c['paths'], c['seconds']))
  print('%s tier=%s: %d/%d obligations discharged in %d units (%d clauses), solver %.2fs, wall %.1fs; violations=%d known=%d undecided=%d'
        % (prop, tier, n_dis, n_obl, len(units) + len(closure_units), len(clauses), solver_seconds, time.time() - t0, len(vio_lines), len(seen_known), len(undecided)))
  if errors:
    return 3
  if vio_lines:
    return 1
  if undecided:
    return 2
  return 0


if __name__ == '__main__':
  sys.exit(main())
